"""C04: bootstrapping maps the rounded input phase through the test polynomial exactly."""
import vbuild
import vcheck
from vcheck import Job

RULE = ("cell = (parameter layout n,k,l,Bgbit,t,basebit ; back-end/build ; input class ; p class). Oracle: harness prediction "
        "p = round(2N b) - sum round(2N a_i) s_i mod 2N with its own 128-bit rounding and key arithmetic (exact ties accept both "
        "neighbours); exact phase of the result under the secret key must be +-mu (v_p for arbitrary test polynomials) within "
        "8 sigma of the analytic noise for the configured (tiny) key noise; trivial inputs without key switch: exactly +-mu; "
        "key object histories (source key re-filled or deleted, derived key deleted): same bits before and after")

LAYOUTS = [(2, 10), (3, 7), (3, 10), (4, 8), (8, 4), (16, 2)]


def cfg_job(fl, be, n, k, l, bg, seed, modes, entries=15, count=40, pstep=1, coef=1, timeout=1800, tool=None, share=0):
    return Job("%s-%s-n%d-k%d-l%d-bg%d-%s%s" % (fl, be, n, k, l, bg, modes, "-sharedparams" if share else ""), "drv_c04", fl, be,
               ["--seed", seed, "--n", n, "--k", k, "--l", l, "--Bgbit", bg, "--modes", modes, "--entries", entries,
                "--count", count, "--pstep", pstep, "--coefdomain", coef, "--shareparams", share], timeout=timeout, tool=tool,
               meta={"leaks": False})


def run(tier, seed, t0):
    thorough = tier == "thorough"
    jobs = []
    if not thorough:
        for be in ("spqlios-fma", "nayuki-portable"):
            for (l, bg) in LAYOUTS:
                jobs.append(cfg_job("optim", be, 8, 1, l, bg, seed, "abcd" if (l, bg) in ((3, 7), (2, 10)) else "abc", pstep=1 if (l, bg) in ((3, 7), (2, 10)) else 16, count=24))
            jobs.append(cfg_job("optim", be, 5, 2, 2, 10, seed, "abc", pstep=8, count=24))
            jobs.append(cfg_job("optim", be, 1, 1, 3, 7, seed, "bc", pstep=32, count=24))
            jobs.append(cfg_job("optim", be, 64, 1, 3, 7, seed, "b", count=24))
        jobs.append(cfg_job("optim", "spqlios-fma", 630, 1, 3, 7, seed, "b", count=16))
        # the in/out parameters are the very object of the accumulator's extracted parameters (n = N): keys still differ
        jobs.append(cfg_job("optim", "spqlios-fma", 1024, 1, 3, 7, seed + 4, "b", count=10, entries=3, share=1))
        jobs.append(cfg_job("optim", "nayuki-portable", 1024, 1, 2, 10, seed + 4, "b", count=6, entries=15, share=1))
        jobs.append(cfg_job("optim", "spqlios-fma", 1100, 1, 2, 10, seed, "b", count=8))
        jobs.append(cfg_job("optim", "fftw", 16, 2, 4, 8, seed, "bcd", pstep=16, count=16))
        jobs.append(cfg_job("optim", "spqlios-avx", 16, 1, 3, 10, seed, "bc", pstep=16, count=16))
        jobs.append(cfg_job("optim", "nayuki-avx", 2, 1, 8, 4, seed, "abc", pstep=16, count=16))
        jobs.append(cfg_job("debug", "spqlios-fma", 8, 1, 3, 7, seed, "abc", pstep=64, count=8, entries=3))
        jobs.append(cfg_job("debug", "nayuki-portable", 5, 1, 2, 10, seed, "bc", pstep=128, count=6, entries=3, coef=0))
        # key object histories under ASan (a key used after a related key object was re-filled or deleted)
        jobs.append(cfg_job("asan", "spqlios-fma", 6, 1, 3, 7, seed, "d", entries=15, timeout=3000))
        # n > N under ASan (the modulus-switched mask array)
        jobs.append(cfg_job("asan", "spqlios-fma", 1100, 1, 2, 10, seed, "b", count=2, entries=5, timeout=3000))
    else:
        for be in vbuild.BACKENDS:
            for (l, bg) in LAYOUTS:
                for k in (1, 2):
                    jobs.append(cfg_job("optim", be, 8, k, l, bg, seed, "abcd", pstep=1 if k == 1 else 4, count=80))
            for n in (1, 2, 5, 16, 64):
                jobs.append(cfg_job("optim", be, n, 1, 3, 7, seed + 1, "bc", pstep=8, count=80))
                jobs.append(cfg_job("optim", be, n, 2, 2, 10, seed + 1, "bc", pstep=16, count=60))
            for n in (500, 1024, 1100):
                jobs.append(cfg_job("optim", be, n, 1, 2 if n != 1024 else 3, 10 if n != 1024 else 7, seed + 2, "b", count=24, timeout=3600))
            jobs.append(cfg_job("debug", be, 8, 1, 3, 7, seed, "abc", pstep=32, count=16, entries=3, coef=(0 if "nayuki" in be else 1), timeout=3600))
        jobs.append(cfg_job("optim", "spqlios-fma", 1100, 2, 3, 7, seed + 3, "b", count=12, timeout=3600))
        for be in vbuild.BACKENDS:
            jobs.append(cfg_job("optim", be, 1024, 1, 3, 7, seed + 4, "b", count=16, entries=15, share=1, timeout=3600))
        jobs.append(cfg_job("optim", "spqlios-fma", 2048, 2, 2, 10, seed + 4, "b", count=8, entries=3, share=1, timeout=3600))
        jobs.append(cfg_job("asan", "spqlios-fma", 1100, 1, 2, 10, seed, "b", count=3, entries=15, timeout=3600))
        jobs.append(cfg_job("asan", "nayuki-portable", 1025, 1, 3, 7, seed, "b", count=3, entries=5, timeout=3600))
        for be in vbuild.BACKENDS:
            jobs.append(cfg_job("asan", be, 6, 2 if be == "fftw" else 1, 3, 7, seed, "d", entries=15, timeout=3600))
    # key-switching decompositions of the key under test: the default (10,2) and others, by job
    KS = [(10, 2), (5, 3), (4, 4), (3, 5), (2, 8), (15, 1), (8, 2), (6, 3)]
    for i, j in enumerate(jobs):
        t, bb = KS[i % len(KS)]
        if (t, bb) != (10, 2):
            j.args = j.args + ["--t", str(t), "--basebit", str(bb)]
            j.name += "-t%d-bb%d" % (t, bb)
    # process history: every other job first generates and uses a key set of another layout (all dimensions different)
    for i, j in enumerate(jobs):
        if j.flavor in ("optim", "debug") and i % 2 == 0:
            j.args = j.args + ["--prelude", "1"]
    for j in jobs:
        j.weight = 2 if " 1100 " in " ".join(str(a) for a in j.args) + " " else 1

    def post(results, agg):
        tab = {}
        for r in results:
            for e in r.by_type("stat"):
                s = e["stat"]
                if s.get("kind") == "bootstrap-config":
                    tab["%s/%s/%s" % (r.job.flavor, r.job.backend, s["config"])] = {k: s[k] for k in s if k not in ("kind", "config", "_job")}
        return [], {"max_error_vs_tolerance_by_config": tab}

    return vcheck.simple_run("C04", tier, seed, t0, jobs, "exploration", RULE,
                             ["keys generated by the library with bk/ks noise 2^-31 so that any index or sign error is a gross error",
                              "N = 1024 (all back-ends), k in {1,2}"],
                             min_evaluations=5000, post=post)
