"""C05: export followed by import reproduces every object exactly, on both transports."""
import os

import vbuild
import vcheck
from vcheck import Job

RULE = ("cell = (object kind [15 exporter/importer pairs over 12 object types], single|position in a back-to-back sequence, size "
        "class, transport). Oracle per object: bytes(FILE) == bytes(stream); import consumes exactly the exported bytes and "
        "leaves the stream good; imported object field-for-field equal (reals by bit pattern; advisory key-row variance = "
        "common maximum); re-export byte-identical. Functional: all 14 gates x 8 input tuples give memcmp-identical outputs "
        "under the original and the re-imported cloud key; re-imported secret key gives identical phases and bits")


def comma_locale():
    """LOCPATH directory holding the decimal-comma C locale xx_COMMA (built with localedef; None if that is not possible)"""
    import importlib.util
    spec = importlib.util.spec_from_file_location("mklocale", os.path.join(vbuild.VERIF, "harness", "c05", "mklocale.py"))
    m = importlib.util.module_from_spec(spec)
    spec.loader.exec_module(m)
    try:
        return m.build(os.path.join(vbuild.build_dir(), "locale"))
    except Exception:
        return None


def run(tier, seed, t0):
    thorough = tier == "thorough"
    jobs = []
    reps = 60 if thorough else 16
    lp = comma_locale()
    if lp:   # the same round trips in a process whose C locale has a decimal comma and digit grouping
        cl = {"LOCPATH": lp}
        jobs.append(Job("single-clocale", "drv_c05", "optim", "spqlios-fma", ["--mode", "single", "--reps", reps // 2, "--seed", seed + 40, "--clocale", "xx_COMMA"], timeout=1800, env=cl))
        jobs.append(Job("sequence-clocale", "drv_c05", "optim", "nayuki-portable", ["--mode", "sequence", "--reps", 60 if thorough else 20, "--seed", seed + 41, "--clocale", "xx_COMMA", "--locale", 1], timeout=1800, env=cl))
        jobs.append(Job("functional-small-clocale", "drv_c05", "optim", "spqlios-fma", ["--mode", "functional", "--lambda", 0, "--seed", seed + 42, "--clocale", "xx_COMMA"], timeout=1800, env=cl))
        jobs.append(Job("single-clocale-debug", "drv_c05", "debug", "fftw", ["--mode", "single", "--reps", 4, "--seed", seed + 43, "--clocale", "xx_COMMA"], timeout=1800, env=cl))
    for i in range(4):
        jobs.append(Job("single-%d" % i, "drv_c05", "optim", "spqlios-fma", ["--mode", "single", "--reps", reps, "--seed", seed, "--shard", i, "--locale", i % 2], timeout=1800))
    for i in range(2):
        jobs.append(Job("sequence-%d" % i, "drv_c05", "optim", "spqlios-fma", ["--mode", "sequence", "--reps", 120 if thorough else 30, "--seed", seed, "--shard", i, "--locale", i % 2], timeout=1800))
    for i, (fl, be) in enumerate([("optim", "spqlios-fma"), ("optim", "fftw")] + ([("debug", "nayuki-portable"), ("asan", "spqlios-fma")] if thorough else [])):
        jobs.append(Job("handoff-%s-%s" % (fl, be), "drv_c05", fl, be, ["--mode", "handoff", "--reps", 12 if thorough else 5, "--seed", seed + 20 + i], timeout=3000, meta={"leaks": False}))
    jobs.append(Job("longrun", "drv_c05", "optim", "spqlios-fma", ["--mode", "longrun", "--count", 140000 if thorough else 70000, "--seed", seed + 30], timeout=3600, meta={"leaks": False}))
    jobs.append(Job("single-debug", "drv_c05", "debug", "nayuki-portable", ["--mode", "single", "--reps", 6, "--seed", seed + 9], timeout=1800))
    jobs.append(Job("sequence-debug", "drv_c05", "debug", "nayuki-portable", ["--mode", "sequence", "--reps", 10, "--seed", seed + 9], timeout=1800))
    bes = vbuild.BACKENDS if thorough else ["spqlios-fma", "nayuki-portable"]
    for be in bes:
        jobs.append(Job("functional-small-%s" % be, "drv_c05", "optim", be, ["--mode", "functional", "--lambda", 0, "--seed", seed], timeout=1800))
    lams = [(be, lam) for be in vbuild.BACKENDS for lam in (80, 128)] if thorough else [("spqlios-fma", 128), ("spqlios-avx", 80)]
    for be, lam in lams:
        jobs.append(Job("functional-%s-%d" % (be, lam), "drv_c05", "optim", be, ["--mode", "functional", "--lambda", lam, "--seed", seed], timeout=3600, weight=2))
    if thorough:
        for be in vbuild.BACKENDS:
            jobs.append(Job("default-keyset-%s" % be, "drv_c05", "optim", be, ["--mode", "default-keyset", "--lambda", 128, "--seed", seed], timeout=3600, weight=2))
    return vcheck.simple_run("C05", tier, seed, t0, jobs, "exploration", RULE,
                             ["objects are compared through their public struct fields; key sets use N = 1024 with small n, l, t (plus the default sets)",
                              "noise parameters drawn log-uniformly from [1e-12, 0.5] and from the defaults 2^-15, 2^-25, 2.44e-5, 7.18e-9, 0.012467"],
                             min_evaluations=500)
