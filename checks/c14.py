"""C14: ciphertext linear operations act exactly linearly on phases, for every dimension; extraction exact."""
import vcheck
from vcheck import Job

RULE = ("cell = (scheme, dimension n or (N,k), coefficient class pair, key class); every oracle decision compares the exact "
        "phase (harness uint32 arithmetic, arbitrary integer keys) of a library result with the linear combination of the "
        "exact input phases, plus variance annotation, input bytes and guard-page canaries; extraction: every index j. "
        "LWE masks sit flush against PROT_NONE pages (optim build, AVX2 tail code) and the same cells run under memcheck")

BIG = [500, 630, 1023, 1024, 1025, 2048]


def run(tier, seed, t0):
    thorough = tier == "thorough"
    reps = 30 if thorough else 9
    jobs = []
    # one process per small n, so that a crash (guard page hit) is attributed to its own cell and hides nothing else
    for n in range(1, 41):
        jobs.append(Job("optim-lwe-n%d" % n, "drv_c14", "optim", "spqlios-fma",
                        ["--mode", "lwe", "--n", n, "--reps", reps, "--seed", seed]))
    for n in BIG:
        jobs.append(Job("optim-lwe-n%d" % n, "drv_c14", "optim", "spqlios-fma",
                        ["--mode", "lwe", "--n", n, "--reps", reps, "--seed", seed]))
    jobs.append(Job("debug-lwe", "drv_c14", "debug", "nayuki-portable",
                    ["--mode", "lwe", "--n", ",".join(str(n) for n in list(range(1, 41)) + BIG), "--reps", max(3, reps // 3), "--seed", seed + 1]))
    Ns = [2, 4, 8, 16, 32, 64, 128, 256, 512, 1024]
    for N in Ns:
        r = reps if N <= 256 else max(3, reps // 3)
        jobs.append(Job("optim-tlwe-N%d" % N, "drv_c14", "optim", "spqlios-fma",
                        ["--mode", "tlwe", "--N", N, "--k", "1,2,3", "--reps", r, "--seed", seed]))
        jobs.append(Job("optim-extract-N%d" % N, "drv_c14", "optim", "spqlios-fma",
                        ["--mode", "extract", "--N", N, "--k", "1,2,3", "--reps", 4 if thorough else 2, "--seed", seed]))
    # several threads at once, each with its own dimensions; natively and under TSan
    jobs.append(Job("threads-optim", "drv_c14", "optim", "spqlios-fma", ["--mode", "threads", "--reps", 3000 if thorough else 400, "--seed", seed + 10], timeout=3600))
    jobs.append(Job("threads-scalar", "drv_c14", "scalar", "nayuki-portable", ["--mode", "threads", "--reps", 300, "--seed", seed + 11], timeout=3600))
    jobs.append(Job("threads-tsan", "drv_c14", "tsan", "nayuki-portable", ["--mode", "threads", "--reps", 40, "--seed", seed + 12], tool="tsan", timeout=3600, meta={"leaks": False}))
    # long runs in one process: every entry point called more often than a 16-bit counter can count
    jobs.append(Job("optim-lwe-longrun", "drv_c14", "optim", "spqlios-fma", ["--mode", "lwe", "--n", "5", "--reps", 70000, "--seed", seed + 7], timeout=3600))
    jobs.append(Job("optim-tlwe-longrun", "drv_c14", "optim", "spqlios-fma", ["--mode", "tlwe", "--N", "8", "--k", "1", "--reps", 70000, "--seed", seed + 7], timeout=3600))
    # operands, results and keys far apart in the address space (successive blocks from three distant regions)
    jobs.append(Job("optim-lwe-spread", "drv_c14", "optim", "spqlios-fma", ["--mode", "lwe", "--n", "1,7,8,9,33,500,630,1024", "--reps", max(3, reps // 3), "--seed", seed + 5, "--heapphase", 100]))
    jobs.append(Job("optim-tlwe-spread", "drv_c14", "optim", "spqlios-fma", ["--mode", "tlwe", "--N", "16,64,1024", "--k", "1,2", "--reps", max(3, reps // 3), "--seed", seed + 5, "--heapphase", 100]))
    jobs.append(Job("optim-extract-spread", "drv_c14", "optim", "spqlios-fma", ["--mode", "extract", "--N", "16,1024", "--k", "1,2", "--reps", 1, "--seed", seed + 5, "--heapphase", 100]))
    jobs.append(Job("debug-tlwe-spread", "drv_c14", "debug", "nayuki-portable", ["--mode", "tlwe", "--N", "64,1024", "--k", "1,2", "--reps", 2, "--seed", seed + 6, "--heapphase", 100]))
    # ring degrees that are not powers of two (the quantifier says N in 2..1024; nothing in these operations needs a power of two)
    jobs.append(Job("optim-tlwe-odd-degrees", "drv_c14", "optim", "spqlios-fma", ["--mode", "tlwe", "--N", "3,5,6,7,12,100,630,1000,1023", "--k", "1,2,3", "--reps", max(2, reps // 4), "--seed", seed + 8]))
    jobs.append(Job("optim-extract-odd-degrees", "drv_c14", "optim", "spqlios-fma", ["--mode", "extract", "--N", "3,5,6,7,12,100,630,1000,1023", "--k", "1,2,3", "--reps", 2, "--seed", seed + 8]))
    jobs.append(Job("debug-extract-odd-degrees", "drv_c14", "debug", "nayuki-portable", ["--mode", "extract", "--N", "3,6,100,1023", "--k", "1,2", "--reps", 1, "--seed", seed + 9]))
    jobs.append(Job("debug-tlwe", "drv_c14", "debug", "nayuki-portable",
                    ["--mode", "tlwe", "--N", "2,8,64,1024", "--k", "1,2,3", "--reps", 2, "--seed", seed + 1]))
    jobs.append(Job("debug-extract", "drv_c14", "debug", "nayuki-portable",
                    ["--mode", "extract", "--N", "2,4,16,256,1024", "--k", "1,2,3", "--reps", 2, "--seed", seed + 1]))
    # memcheck sees the inline assembly that ASan cannot; one process per n < 9 for attribution
    vg_ns = list(range(1, 18)) + ([23, 31, 33, 630, 1025] if thorough else [630])
    for n in vg_ns:
        jobs.append(Job("memcheck-lwe-n%d" % n, "drv_c14", "vg", "spqlios-fma",
                        ["--mode", "lwe", "--n", n, "--reps", 3, "--seed", seed + 2], tool="memcheck", timeout=1200))
    jobs.append(Job("asan-lwe", "drv_c14", "asan", "spqlios-fma",
                    ["--mode", "lwe", "--n", "8,9,16,17,630", "--reps", 3, "--seed", seed + 3], timeout=1200))
    jobs.append(Job("asan-extract", "drv_c14", "asan", "spqlios-fma",
                    ["--mode", "extract", "--N", "2,16,1024", "--k", "1,2,3", "--reps", 1, "--seed", seed + 3], timeout=1200))
    for i, j in enumerate(jobs):      # process history: every other native job runs the operations in other dimensions first
        if j.tool is None and j.flavor in ("optim", "debug") and i % 2 == 0:
            j.args = j.args + ["--prelude", "1"]
    return vcheck.simple_run("C14", tier, seed, t0, jobs, "exploration", RULE,
                             ["exact phases are computed by the harness in Z/2^32 with keys of its own choosing (binary, arbitrary, extreme)",
                              "TLWE relations checked here are the FFT-free ones (any N); FFT-based products are C09/C10"],
                             min_evaluations=5000)
