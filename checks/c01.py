"""C01: every homomorphic gate computes its Boolean function."""
import vbuild
import vcheck
from vcheck import Job

RULE = ("cell = (build/back-end/parameter set, gate, plaintext tuple, input-class vector); classes: fresh, output of a bootstrapped "
        "gate, CONSTANT, phase set exactly to +-1/8 +-1/32, +-(1/32 - 1 ulp), uniform in [-1/32,1/32] (exact injection with the "
        "secret key), all sign combinations for MUX; oracle: bootsSymDecrypt == truth table, exact phase relations for "
        "NOT/COPY/CONSTANT; on a mismatch the harness re-derives the rounded phase of the gate's linear combination to tell a "
        "wrong combination from a wrong bootstrapping. trivial = NOT/COPY/CONSTANT or all-CONSTANT inputs")


def run(tier, seed, t0):
    thorough = tier == "thorough"
    jobs = []
    for be in vbuild.BACKENDS:
        for lam in (80, 128):
            seeds = [seed, seed + 1, seed + 2] if thorough else [seed]
            for s in seeds:
                jobs.append(Job("optim-%s-%d-s%d" % (be, lam, s), "drv_c01", "optim", be,
                                ["--seed", s, "--lambda", lam, "--level", "full" if thorough else ("lite" if be.startswith("nayuki") else "quick")], timeout=3600))
    dbg = [(be, lam) for be in vbuild.BACKENDS for lam in (80, 128)] if thorough else [("spqlios-fma", 128), ("nayuki-avx", 80), ("fftw", 80)]
    for be, lam in dbg:
        jobs.append(Job("debug-%s-%d" % (be, lam), "drv_c01", "debug", be,
                        ["--seed", seed + 7, "--lambda", lam, "--level", "quick" if thorough else "lite"], timeout=7200))
    # program start-up: every third job also evaluates all gates from the constructor of a namespace-scope object, before main
    for i, j in enumerate(jobs):
        if i % 3 == 0:
            j.env = dict(j.env, VH_PREMAIN="1")
    for i, j in enumerate(jobs):      # process history: every other native job first generates and uses a custom parameter set
        if j.tool is None and j.driver == "drv_c01" and i % 2 == 0:
            j.args = j.args + ["--prelude", "1"]

    return vcheck.simple_run("C01", tier, seed, t0, jobs, "exploration", RULE,
                             ["admissible = phase within 1/32 of +-1/8 (inclusive); injection is exact because the harness measures "
                              "the sample's phase with the secret key and moves b",
                              "key seeds: one per worker process (three per configuration in the thorough tier)"],
                             min_evaluations=2000)
