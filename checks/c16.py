"""C16: no out-of-bounds access, uninitialised read or leak for any valid configuration."""
import itertools

import vbuild
import vcheck
from vcheck import Job

RULE = ("cell = (configuration n,k,l,Bgbit,t,basebit ; deletion order ; tool) for API lifecycles (parameters -> keys -> key "
        "generation -> encryption -> all 14 gates + coefficient-domain bootstraps -> export/import of every object on both "
        "transports -> evaluation with the imported keys -> deletion in one of six orders), (object kind) for the IO registry, "
        "(type) for the sweep over all allocator/constructor/destructor families (single and array, 17 types x 5 pairings) "
        "pass, and thread create/exit histories. Oracles: AddressSanitizer + UBSan (minus by-design wrapping) + LeakSanitizer on "
        "the C/C++ code, valgrind memcheck on the valgrind flavor (hand-written assembly), both with leak checking at exit; a "
        "report is keyed by its kind and the first library frame. Blocks still reachable from the library's parameter garbage "
        "collector are by design and not counted")

NS_SMALL = [1, 3, 7, 8, 9]
LB = [(2, 10), (3, 7), (4, 8), (16, 2)]
TB = [(8, 2), (2, 1), (5, 6)]


def life(fl, be, n, k, l, bg, t, bb, order, seed, tool=None, heavyio=1, timeout=3600, weight=1):
    return Job("%s-%s-n%d-k%d-l%d-bg%d-t%d-bb%d-o%d" % (tool or fl, be, n, k, l, bg, t, bb, order), "drv_c16", fl, be,
               ["--mode", "lifecycle", "--n", n, "--k", k, "--l", l, "--Bgbit", bg, "--t", t, "--basebit", bb, "--order", order,
                "--heavyio", heavyio, "--seed", seed], tool=tool, timeout=timeout, weight=weight)


def run(tier, seed, t0):
    thorough = tier == "thorough"
    jobs = []
    if thorough:
        o = 0
        for n, k, (l, bg), (t, bb) in itertools.product(NS_SMALL, (1, 2), LB, TB):
            be = vbuild.BACKENDS[o % 5]
            jobs.append(life("asan", be, n, k, l, bg, t, bb, o, seed))
            o += 1
        # large n: pairwise covering of (k, layout, ks layout), (5,6) only once (its key-switching key is 0.8 GB)
        big = [(500, 1, 2, 10, 8, 2), (500, 2, 3, 7, 2, 1), (630, 1, 3, 7, 8, 2), (630, 2, 4, 8, 2, 1), (1024, 1, 4, 8, 8, 2), (1024, 2, 2, 10, 2, 1),
               (1025, 1, 16, 2, 2, 1), (1025, 2, 3, 7, 8, 2), (1100, 1, 2, 10, 8, 2), (1100, 2, 3, 7, 2, 1), (1100, 1, 16, 2, 2, 1), (500, 1, 3, 7, 5, 6)]
        for i, (n, k, l, bg, t, bb) in enumerate(big):
            jobs.append(life("asan", vbuild.BACKENDS[i % 5], n, k, l, bg, t, bb, i, seed, heavyio=0 if (t, bb) == (5, 6) else 1, weight=4 if (t, bb) == (5, 6) else 2, timeout=7200))
        for i, (n, k) in enumerate(itertools.product(NS_SMALL, (1, 2))):
            jobs.append(life("vg", ["spqlios-fma", "spqlios-avx", "nayuki-avx"][i % 3], n, k, 2, 10, 2, 1, i, seed, tool="memcheck", timeout=7200))
        jobs.append(life("asand", "nayuki-portable", 9, 1, 3, 7, 8, 2, 1, seed, timeout=7200))
        jobs.append(life("asand", "spqlios-fma", 7, 2, 2, 10, 2, 1, 2, seed, timeout=7200))
        thread_bes = vbuild.BACKENDS
    else:
        quick = [(1, 1, 2, 10, 8, 2), (3, 1, 3, 7, 8, 2), (3, 2, 2, 10, 2, 1), (7, 1, 4, 8, 5, 6), (8, 2, 3, 7, 8, 2), (9, 1, 16, 2, 2, 1), (9, 2, 4, 8, 8, 2),
                 (7, 1, 2, 10, 8, 2), (500, 1, 2, 10, 8, 2), (630, 1, 3, 7, 8, 2), (1025, 1, 3, 7, 2, 1), (1100, 1, 2, 10, 2, 1)]
        for i, (n, k, l, bg, t, bb) in enumerate(quick):
            jobs.append(life("asan", vbuild.BACKENDS[i % 5], n, k, l, bg, t, bb, i, seed, weight=2 if n > 100 else 1))
        for i, (n, k) in enumerate([(3, 1), (7, 2), (9, 1)]):
            jobs.append(life("vg", ["spqlios-fma", "nayuki-avx", "spqlios-avx"][i], n, k, 2, 10, 2, 1, i, seed, tool="memcheck", heavyio=0))
        thread_bes = ["spqlios-fma", "nayuki-portable", "fftw"]
    for be in (vbuild.BACKENDS if thorough else ["spqlios-fma", "nayuki-portable", "fftw"]):
        jobs.append(Job("asan-allocators-%s" % be, "drv_c16", "asan", be, ["--mode", "allocators", "--reps", 6 if thorough else 2, "--seed", seed], timeout=3600))
    jobs.append(Job("memcheck-allocators", "drv_c16", "vg", "spqlios-avx", ["--mode", "allocators", "--reps", 1, "--seed", seed], tool="memcheck", timeout=7200))
    jobs.append(Job("asand-allocators", "drv_c16", "asand", "nayuki-avx", ["--mode", "allocators", "--reps", 1, "--seed", seed], timeout=7200))
    jobs.append(Job("asan-iokinds", "drv_c16", "asan", "spqlios-fma", ["--mode", "iokinds", "--reps", 12 if thorough else 4, "--seed", seed], timeout=3600))
    jobs.append(Job("memcheck-iokinds", "drv_c16", "vg", "nayuki-avx", ["--mode", "iokinds", "--reps", 3 if thorough else 1, "--seed", seed], tool="memcheck", timeout=7200))
    for be in thread_bes:
        jobs.append(Job("asan-threads-%s" % be, "drv_c16", "asan", be, ["--mode", "threads", "--count", 50, "--burst", 10, "--seed", seed], timeout=3600, weight=4))
    for be in vbuild.BACKENDS:   # native speed: stack/TLS recycling as the C library really does it
        jobs.append(Job("optim-threads-%s" % be, "drv_c16", "optim", be, ["--mode", "threads", "--count", 30, "--burst", 10, "--seed", seed], timeout=3600, weight=4))
    for be in (["spqlios-fma", "spqlios-avx", "nayuki-avx"] if thorough else ["spqlios-fma"]):
        jobs.append(Job("memcheck-threads-%s" % be, "drv_c16", "vg", be, ["--mode", "threads", "--count", 12, "--burst", 4, "--seed", seed], tool="memcheck", timeout=7200, weight=2))

    def post(results, agg):
        cells = {}
        for r in results:
            for e in r.by_type("cells"):
                for c, n in e["cells"].items():
                    cells["%s:%s:%s" % (r.job.tool or r.job.flavor, r.job.backend, c)] = n
        agg["cells"] = cells
        return [], {"tool_reports_total": sum(len(r.tool_reports) for r in results)}

    return vcheck.simple_run("C16", tier, seed, t0, jobs, "exploration", RULE,
                             ["red-zone tools miss non-adjacent and intra-object overflows: a clean run is 'no report on these executions', not memory safety",
                              "memcheck runs use the valgrind flavor (-march=haswell: AVX2/FMA assembly paths compiled in, no AVX-512)"],
                             min_evaluations=100, post=post)
