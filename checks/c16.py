"""C16: no out-of-bounds access, uninitialised read or leak for any valid configuration."""
import itertools

import vbuild
import vcheck
from vcheck import Job

RULE = ("cell = (configuration n,k,l,Bgbit,t,basebit ; deletion order ; tool) for API lifecycles (parameters -> keys -> key "
        "generation -> encryption -> all 14 gates + coefficient-domain bootstraps -> export/import of every object on both "
        "transports -> evaluation with the imported keys -> deletion in one of six orders), (object kind) for the IO registry, "
        "(type) for the sweep over all allocator/constructor/destructor families (single and array, 17 types x 5 pairings), "
        "(driver) for the workloads of other checks re-run under the sanitizers and memcheck "
        "pass, and thread create/exit histories. Oracles: AddressSanitizer + UBSan (minus by-design wrapping) + LeakSanitizer on "
        "the C/C++ code, valgrind memcheck on the valgrind flavor (hand-written assembly), both with leak checking at exit; a "
        "report is keyed by its kind and the first library frame. Blocks still reachable from the library's parameter garbage "
        "collector are by design and not counted")

NS_SMALL = [1, 3, 7, 8, 9]
LB = [(2, 10), (3, 7), (4, 8), (16, 2)]
TB = [(8, 2), (2, 1), (5, 6)]


def life(fl, be, n, k, l, bg, t, bb, order, seed, tool=None, heavyio=1, timeout=3600, weight=1):
    return Job("%s-%s-n%d-k%d-l%d-bg%d-t%d-bb%d-o%d" % (tool or fl, be, n, k, l, bg, t, bb, order), "drv_c16", fl, be,
               ["--mode", "lifecycle", "--n", n, "--k", k, "--l", l, "--Bgbit", bg, "--t", t, "--basebit", bb, "--order", order,
                "--heavyio", heavyio, "--seed", seed, "--prelude", order % 2], tool=tool, timeout=timeout, weight=weight)


def run(tier, seed, t0):
    thorough = tier == "thorough"
    jobs = []
    if thorough:
        o = 0
        for n, k, (l, bg), (t, bb) in itertools.product(NS_SMALL, (1, 2), LB, TB):
            be = vbuild.BACKENDS[o % 5]
            jobs.append(life("asan", be, n, k, l, bg, t, bb, o, seed))
            o += 1
        # large n: pairwise covering of (k, layout, ks layout), (5,6) only once (its key-switching key is 0.8 GB)
        big = [(500, 1, 2, 10, 8, 2), (500, 2, 3, 7, 2, 1), (630, 1, 3, 7, 8, 2), (630, 2, 4, 8, 2, 1), (1024, 1, 4, 8, 8, 2), (1024, 2, 2, 10, 2, 1),
               (1025, 1, 16, 2, 2, 1), (1025, 2, 3, 7, 8, 2), (1100, 1, 2, 10, 8, 2), (1100, 2, 3, 7, 2, 1), (1100, 1, 16, 2, 2, 1), (500, 1, 3, 7, 5, 6), (1023, 1, 3, 7, 2, 1), (1024, 1, 3, 7, 8, 2), (2048, 1, 2, 10, 2, 1),
               (3, 2, 1, 16, 2, 1), (7, 1, 1, 8, 8, 2), (9, 2, 1, 4, 2, 1), (8, 2, 1, 16, 8, 2), (500, 2, 1, 16, 2, 1)]
        for i, (n, k, l, bg, t, bb) in enumerate(big):
            jobs.append(life("asan", vbuild.BACKENDS[i % 5], n, k, l, bg, t, bb, i, seed, heavyio=0 if (t, bb) == (5, 6) else 1, weight=4 if (t, bb) == (5, 6) else 2, timeout=7200))
        for i, (n, k) in enumerate(itertools.product(NS_SMALL, (1, 2))):
            jobs.append(life("vg", ["spqlios-fma", "spqlios-avx", "nayuki-avx"][i % 3], n, k, 2, 10, 2, 1, i, seed, tool="memcheck", timeout=7200))
        jobs.append(life("asand", "nayuki-portable", 9, 1, 3, 7, 8, 2, 1, seed, timeout=7200))
        jobs.append(life("asand", "spqlios-fma", 7, 2, 2, 10, 2, 1, 2, seed, timeout=7200))
        thread_bes = vbuild.BACKENDS
    else:
        quick = [(1, 1, 2, 10, 8, 2), (3, 1, 3, 7, 8, 2), (3, 2, 2, 10, 2, 1), (7, 1, 4, 8, 5, 6), (8, 2, 3, 7, 8, 2), (9, 1, 16, 2, 2, 1), (9, 2, 4, 8, 8, 2),
                 (7, 1, 2, 10, 8, 2), (500, 1, 2, 10, 8, 2), (630, 1, 3, 7, 8, 2), (1025, 1, 3, 7, 2, 1), (1100, 1, 2, 10, 2, 1),
                 (1024, 1, 2, 10, 2, 1), (1023, 1, 3, 7, 2, 1), (1024, 2, 3, 7, 2, 1),
                 (3, 2, 1, 16, 2, 1), (7, 1, 1, 8, 8, 2), (9, 2, 1, 4, 2, 1)]      # n == N and its neighbours; a single decomposition level (l = 1 < k + 1)
        for i, (n, k, l, bg, t, bb) in enumerate(quick):
            jobs.append(life("asan", vbuild.BACKENDS[i % 5], n, k, l, bg, t, bb, i, seed, weight=2 if n > 100 else 1))
        for i, (n, k) in enumerate([(3, 1), (7, 2), (9, 1)]):
            jobs.append(life("vg", ["spqlios-fma", "nayuki-avx", "spqlios-avx"][i], n, k, 2, 10, 2, 1, i, seed, tool="memcheck", heavyio=0))
        thread_bes = ["spqlios-fma", "nayuki-portable", "fftw"]
    for be in (vbuild.BACKENDS if thorough else ["spqlios-fma", "nayuki-portable", "fftw"]):
        jobs.append(Job("asan-allocators-%s" % be, "drv_c16", "asan", be, ["--mode", "allocators", "--reps", 6 if thorough else 2, "--seed", seed], timeout=3600))
    jobs.append(Job("optim-allocators", "drv_c16", "optim", "spqlios-fma", ["--mode", "allocators", "--reps", 12 if thorough else 4, "--seed", seed + 1], timeout=3600, meta={"leaks": False}))
    jobs.append(Job("memcheck-allocators", "drv_c16", "vg", "spqlios-avx", ["--mode", "allocators", "--reps", 1, "--seed", seed], tool="memcheck", timeout=7200))
    jobs.append(Job("asand-allocators", "drv_c16", "asand", "nayuki-avx", ["--mode", "allocators", "--reps", 1, "--seed", seed], timeout=7200))
    jobs.append(Job("asan-iokinds", "drv_c16", "asan", "spqlios-fma", ["--mode", "iokinds", "--reps", 12 if thorough else 4, "--seed", seed], timeout=3600))
    jobs.append(Job("memcheck-iokinds", "drv_c16", "vg", "nayuki-avx", ["--mode", "iokinds", "--reps", 3 if thorough else 1, "--seed", seed], tool="memcheck", timeout=7200))
    # objects released while the process exits (early-registered exit handler, destructor of a global object)
    for fl, be in ([("asan", be) for be in vbuild.BACKENDS] + [("optim", "spqlios-fma"), ("optim", "fftw"), ("debug", "nayuki-portable")] if thorough
                   else [("asan", "spqlios-fma"), ("asan", "fftw"), ("optim", "nayuki-portable")]):
        jobs.append(Job("%s-exit-time-%s" % (fl, be), "drv_c16", fl, be, ["--mode", "exit-time", "--seed", seed], timeout=3600, weight=2, meta={"exit_time": True}))
    for be in thread_bes:
        jobs.append(Job("asan-threads-%s" % be, "drv_c16", "asan", be, ["--mode", "threads", "--count", 50, "--burst", 10, "--seed", seed], timeout=3600, weight=4))
    for be in vbuild.BACKENDS:   # native speed: stack/TLS recycling as the C library really does it
        jobs.append(Job("optim-threads-%s" % be, "drv_c16", "optim", be, ["--mode", "threads", "--count", 30, "--burst", 10, "--seed", seed], timeout=3600, weight=4))
    for be in (["spqlios-fma", "spqlios-avx", "nayuki-avx"] if thorough else ["spqlios-fma"]):
        jobs.append(Job("memcheck-threads-%s" % be, "drv_c16", "vg", be, ["--mode", "threads", "--count", 12, "--burst", 4, "--seed", seed], tool="memcheck", timeout=7200, weight=2))

    # the workloads of the behavioural checks double as memory-safety workloads: same drivers, sanitizer builds, only the
    # sanitizer/valgrind reports and crashes of these jobs are taken (their functional oracles belong to their own properties;
    # no leak checking here: those drivers are not written to release everything)
    reuse = [("drv_c09", "asan", "spqlios-fma", ["--seed", seed, "--k", 2, "--l", 2, "--Bgbit", 10, "--reps", 6, "--rreps", 6, "--n", "1,4", "--hreps", 3]),
             ("drv_c09", "asan", "nayuki-portable", ["--seed", seed, "--k", 1, "--l", 3, "--Bgbit", 7, "--reps", 6, "--rreps", 6, "--n", "1,4", "--hreps", 3]),
             ("drv_c04", "asan", "fftw", ["--seed", seed, "--n", 8, "--k", 1, "--l", 3, "--Bgbit", 7, "--modes", "abc", "--entries", 15, "--count", 12, "--pstep", 64, "--coefdomain", 1]),
             ("drv_c15", "asan", "spqlios-avx", ["--seed", seed, "--lambda", 0, "--reps", 1, "--lreps", 1, "--treps", 3]),
             ("drv_c05", "asan", "nayuki-avx", ["--mode", "single", "--reps", 3, "--seed", seed]),
             ("drv_c03", "asan", "spqlios-fma", ["--part", "tgsw", "--k", 2, "--l", 2, "--Bgbit", 10, "--tier", "quick", "--seed", seed]),
             ("drv_c10", "asand", "nayuki-portable", ["--seed", seed, "--icls", 0, "--lgB", 9, "--reps", 1, "--tag", "asand-nayuki-portable"]),
             ("drv_c09", "vg", "spqlios-avx", ["--seed", seed, "--k", 1, "--l", 2, "--Bgbit", 10, "--reps", 3, "--rreps", 3, "--n", "2", "--hreps", 2]),
             ("drv_c10", "vg", "nayuki-avx", ["--seed", seed, "--icls", 1, "--lgB", 9, "--reps", 1, "--tag", "vg-nayuki-avx"])]
    if thorough:
        reuse += [("drv_c02", "asan", "spqlios-fma", ["--seed", seed, "--lambda", 80, "--gates", 250]),
                  ("drv_c07", "asan", "fftw", ["--mode", "keys", "--lambda", 0, "--seed", seed, "--threads", 4]),
                  ("drv_c14", "asan", "spqlios-fma", ["--mode", "tlwe", "--N", "2,8,64,1024", "--k", "1,2,3", "--reps", 3, "--seed", seed]),
                  ("drv_c08", "asan", "spqlios-fma", ["--mode", "multi", "--t", 9, "--basebit", 2, "--n_in", 2048, "--n_out", 5, "--reps", 40, "--seed", seed]),
                  ("drv_c12", "asan", "spqlios-fma", ["--seed", seed, "--l", 2, "--Bgbit", 10, "--N", 4096, "--log2count", 18]),
                  ("drv_c06", "asan", "nayuki-avx", ["--seed", seed, "--threads", "2,8", "--rounds", 2, "--slowjobs", 0]),
                  ("drv_c04", "vg", "spqlios-fma", ["--seed", seed, "--n", 4, "--k", 1, "--l", 2, "--Bgbit", 10, "--modes", "bc", "--entries", 5, "--count", 6, "--pstep", 256, "--coefdomain", 0])]
    for i, (drv, fl, be, a) in enumerate(reuse):
        jobs.append(Job("reuse-%s-%s-%s" % (drv, fl, be), drv, fl, be, a, tool=("memcheck" if fl == "vg" else None), timeout=7200,
                        weight=2, meta={"leaks": False, "reuse": True}))

    def post(results, agg):
        cells = {}
        for r in results:
            for e in r.by_type("cells"):
                for c, n in e["cells"].items():
                    cells["%s:%s:%s" % (r.job.tool or r.job.flavor, r.job.backend, c)] = n
        agg["cells"] = cells
        viols = []
        done = {}
        for r in results:
            if r.job.meta.get("exit_time"):
                stages = sorted(e["stat"].get("released_from", "?") for e in r.by_type("stat") if e["stat"].get("kind") == "exit-time")
                done[r.job.name] = stages
                if len(stages) != 2 and r.rc == 0 and not r.timed_out:
                    viols.append(("lifecycle:exit-time-release-did-not-complete", {"job": r.job.name, "completed": stages}, r))
        return viols, {"tool_reports_total": sum(len(r.tool_reports) for r in results), "exit_time_releases_completed": done}

    def drop_foreign(results):
        # functional violations of reused drivers are not C16's business
        for r in results:
            if r.job.meta.get("reuse"):
                r.events = [e for e in r.events if e.get("t") != "viol"]
        return results

    _orig = vcheck.run_jobs
    vcheck.run_jobs = lambda js, progress=True: drop_foreign(_orig(js, progress))
    try:
        return _run(tier, seed, t0, jobs, post)
    finally:
        vcheck.run_jobs = _orig


def _run(tier, seed, t0, jobs, post):
    return vcheck.simple_run("C16", tier, seed, t0, jobs, "exploration", RULE,
                             ["red-zone tools miss non-adjacent and intra-object overflows: a clean run is 'no report on these executions', not memory safety",
                              "memcheck runs use the valgrind flavor (-march=haswell: AVX2/FMA assembly paths compiled in, no AVX-512)"],
                             min_evaluations=100, post=post)
