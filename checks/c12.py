"""C12: gadget decomposition yields balanced digits that recompose to the input."""
import vcheck
from vcheck import Job

RULE = ("cell = (layout (l,Bgbit), value population); every coefficient is one oracle decision: digits in [-Bg/2,Bg/2), "
        "0 <= x - sum d_p 2^(32-p Bgbit) < 2^(32-l Bgbit), digits equal to the harness's scalar formula, input bytes "
        "unchanged, guard pages/canaries intact; a 64-bit digest of every digit of the sweep must be identical between "
        "the optim (AVX2 inline asm) and debug (scalar) builds")

DEFAULTS = [(3, 7), (2, 10)]
GRID = [(4, 8), (2, 16), (16, 2), (8, 4), (3, 10), (6, 5), (1, 2), (1, 16), (4, 7), (32, 1)]


def run(tier, seed, t0):
    thorough = tier == "thorough"
    jobs = []
    plan = []
    for (l, bg) in DEFAULTS:
        plan.append((l, bg, 32 if thorough else 26, 16 if thorough else 8))
    for (l, bg) in GRID:
        plan.append((l, bg, 32 if thorough else 22, 16 if thorough else 2))
    for (l, bg, lg, ns) in plan:
        for fl, be in (("optim", "spqlios-fma"), ("debug", "nayuki-portable")):
            lgf = lg
            if fl == "debug" and thorough and (l, bg) not in DEFAULTS:
                lgf = 28
            nsf = ns
            for i in range(nsf):
                jobs.append(Job("%s-l%d-bg%d-%d" % (fl, l, bg, i), "drv_c12", fl, be,
                                ["--seed", seed, "--l", l, "--Bgbit", bg, "--log2count", lgf, "--shard", i, "--nshards", nsf],
                                timeout=3600, meta={"layout": (l, bg), "lg": lgf, "shard": i}))
    # other ring degrees (the decomposition is FFT-free and takes N from the parameters): small, and beyond 2048
    for N in (8, 16, 64, 512, 2048, 4096, 8192):
        for (l, bg) in DEFAULTS + ([(4, 8), (1, 16)] if thorough else []):
            for fl, be in (("optim", "spqlios-fma"), ("debug", "nayuki-portable")):
                jobs.append(Job("%s-N%d-l%d-bg%d" % (fl, N, l, bg), "drv_c12", fl, be,
                                ["--seed", seed, "--l", l, "--Bgbit", bg, "--N", N, "--log2count", 24 if thorough else 20], timeout=3600))
    # the optimised portable build (what "optim" gives on a target without AVX2): every layout once, shard 0 of the sweeps above
    for (l, bg, lg, ns) in plan:
        jobs.append(Job("scalar-l%d-bg%d-0" % (l, bg), "drv_c12", "scalar", "nayuki-portable",
                        ["--seed", seed, "--l", l, "--Bgbit", bg, "--log2count", lg if not thorough else min(lg, 28) if (l, bg) not in DEFAULTS else lg, "--shard", 0, "--nshards", ns],
                        timeout=3600, meta={"layout": (l, bg), "lg": lg, "shard": 0}))
    for N in (16, 512, 4096):
        jobs.append(Job("scalar-N%d" % N, "drv_c12", "scalar", "nayuki-portable", ["--seed", seed, "--l", 3, "--Bgbit", 7, "--N", N, "--log2count", 20], timeout=3600))
    # several threads at once, each with its own layout and ring degree; natively (AVX2 and portable builds) and under TSan
    jobs.append(Job("threads-optim", "drv_c12", "optim", "spqlios-fma", ["--mode", "threads", "--threads", 12, "--iters", 3000 if thorough else 400, "--seed", seed + 3], timeout=3600))
    jobs.append(Job("threads-scalar", "drv_c12", "scalar", "nayuki-portable", ["--mode", "threads", "--threads", 12, "--iters", 1500 if thorough else 300, "--seed", seed + 4], timeout=3600))
    jobs.append(Job("threads-tsan", "drv_c12", "tsan", "nayuki-portable", ["--mode", "threads", "--threads", 4, "--iters", 60, "--seed", seed + 5], tool="tsan", timeout=3600, meta={"leaks": False}))
    # one layout under ASan as well (scalar tail code, harness buffers)
    jobs.append(Job("asan-l3-bg7", "drv_c12", "asan", "spqlios-fma", ["--seed", seed, "--l", 3, "--Bgbit", 7, "--log2count", 20], timeout=1800))

    for i, j in enumerate(jobs):      # process history: every other job decomposes under another layout first
        if i % 2 == 0:
            j.args = j.args + ["--prelude", "1"]

    def post(results, agg):
        viols = []
        dig = {}
        for r in results:
            for e in r.by_type("stat"):
                s = e["stat"]
                if s.get("kind") == "digest":
                    k = (s["l"], s["Bgbit"], s["log2count"], s["shard"], s["nshards"], s.get("N", 1024))
                    dig.setdefault(k, {})[r.job.flavor] = (s["digest"], r)
        compared = 0
        for k, d in sorted(dig.items()):
            if "optim" in d and "scalar" in d:
                compared += 1
                if d["optim"][0] != d["scalar"][0]:
                    viols.append(("decomp:vector-vs-scalar:l%d.Bg%d" % (k[0], k[1]),
                                  {"layout": k[:2], "log2count": k[2], "shard": k[3], "optim_digest": d["optim"][0],
                                   "optimised_portable_build_digest": d["scalar"][0]}, d["scalar"][1]))
            if "optim" in d and "debug" in d:
                compared += 1
                if d["optim"][0] != d["debug"][0]:
                    viols.append(("decomp:vector-vs-scalar:l%d.Bg%d" % (k[0], k[1]),
                                  {"layout": k[:2], "log2count": k[2], "shard": k[3], "optim_digest": d["optim"][0],
                                   "debug_digest": d["debug"][0]}, d["optim"][1]))
        return viols, {"cross_build_digests_compared": compared, "exhaustive": bool(thorough)}

    return vcheck.simple_run("C12", tier, seed, t0, jobs, "exploration", RULE,
                             ["N = 1024 polynomials for the exhaustive sweeps; N in {8,...,8192} for stratified sweeps; TLWE wrapper for k in {1,2}",
                              "optim build takes the AVX2 inline-assembly path, debug build the scalar path (no -march)"],
                             min_evaluations=100000, post=post)
