"""C07: fresh ciphertexts and key rows carry exactly the configured noise, fresh masks."""
import math

import vbuild
import vcheck
from vcheck import Job

RULE = ("cell = (population, dimension, noise level): fresh LWE samples (n in {1,8,500,630} x 9 noise levels), fresh TLWE samples "
        "(three encryption entry points, k in {1,2}, all 1024 coefficients), every (i,j,h>=1) row of the key-switching key and "
        "every row of the bootstrapping key of generated default key sets (exact phases with the secret keys), gate-API "
        "ciphertexts, masks (byte histograms, lag-1 correlation), key balance, seeding. Oracle (offline): mean, variance and "
        "excess kurtosis of the phase errors against the discretised Gaussian the sampler implements (dtot32 truncates toward "
        "zero), two-sided, 8 estimator standard errors + 0.5% slack on sigma; chi-square of mask bytes at the 1e-15 quantile")

PHI = lambda x: 0.5 * (1 + math.erf(x / math.sqrt(2)))


def trunc_moments(s):
    """variance and 4th moment (units^2, units^4) of trunc-toward-zero(N(0,s^2)), s in units of 2^-32"""
    if s < 3000:
        v = m4 = 0.0
        k = 1
        kmax = int(12 * s) + 3
        prev = PHI(1.0 / s)
        while k <= kmax:
            nxt = PHI((k + 1) / s)
            p = nxt - prev
            v += 2 * k * k * p
            m4 += 2 * (k ** 4) * p
            prev = nxt
            k += 1
        return v, m4
    c = math.sqrt(2 / math.pi)
    v = s * s - s * c + 1.0 / 3
    m4 = 3 * s ** 4 - 4 * (2 * c * s ** 3) * 0.5 + 6 * s * s / 3 - 4 * s * c * 0.25 + 0.2
    return v, m4


def judge_noise(st):
    n = st["n"]
    mean = st["s1"] / n
    var = st["s2"] / n - mean * mean
    m4 = st["s4"] / n
    kurt = m4 / (var * var) - 3 if var > 0 else float("inf")
    s = st["alpha"] * 4294967296.0
    v_model, m4_model = trunc_moments(s)
    k_model = m4_model / (v_model * v_model) - 3
    fk = st.get("fft_allowance_k", 0)
    v_lo, v_hi = v_model, v_model + (2.0 * fk) ** 2
    se = math.sqrt(max(k_model, 0) + 2.0) / math.sqrt(n)
    lo = v_lo * (1 - 8 * se - 0.01)
    hi = v_hi * (1 + 8 * se + 0.01)
    out = []
    info = {"K": n, "mean_units": mean, "sigma_units": math.sqrt(max(var, 0)), "sigma_configured_units": s, "sigma_model_units": math.sqrt(v_model),
            "sigma_ratio_to_model": math.sqrt(max(var, 0) / v_model), "accept_sigma_ratio": [math.sqrt(max(lo, 0) / v_model), math.sqrt(hi / v_model)],
            "excess_kurtosis": kurt, "model_excess_kurtosis": k_model, "max_abs_units": st["max"]}
    if var < lo:
        out.append("noise-too-small")
    if var > hi:
        out.append("noise-too-large")
    if abs(mean) > 8 * math.sqrt(max(var, v_model) / n) + (1.0 if fk else 0.5):
        out.append("not-centred")
    ktol = 8 * math.sqrt(24.0 / n) + 0.05 + (4.0 * fk * fk / v_model if fk else 0)
    if abs(kurt - k_model) > ktol and s >= 2:
        out.append("not-gaussian-shaped")
    if st["max"] > (7.5 if n < 1e9 else 9.5) * math.sqrt(v_hi) + 4:
        out.append("outlier")        # P(|Z| > 7.5) = 6e-14, P(|Z| > 9.5) = 2e-21 per sample
    if "beyond_5_sigma" in st:       # tail mass of the sampler: Poisson counts around n * P(|Z| > z), 8 standard errors + 1
        for z, f, pz in ((5, "beyond_5_sigma", 5.733e-7), (6, "beyond_6_sigma", 1.973e-9)):
            exp = n * pz
            info["beyond_%d_sigma(observed,expected)" % z] = [st[f], round(exp, 2)]
            # the library generator (minstd_rand0) has one cycle of 2^31-2 states and a draw takes ~2.55 of them: beyond ~8e8
            # draws the shards re-visit each other's states, so the counts are inflated by repeats
            rep = max(1.0, n * 2.55 / 2147483646.0)
            info["generator_cycle_coverage"] = round(n * 2.55 / 2147483646.0, 2)
            if abs(st[f] - exp) > 8 * math.sqrt(exp * rep) + 3 + 0.02 * exp:
                out.append("tail-mass-%d-sigma" % z)
    return out, info


def run(tier, seed, t0):
    thorough = tier == "thorough"
    jobs = []
    K = 100000 if thorough else 20000
    for i in range(4 if thorough else 2):
        jobs.append(Job("lwe-%d" % i, "drv_c07", "optim", "spqlios-fma", ["--mode", "lwe", "--K", K, "--seed", seed, "--shard", i], timeout=3600))
    for be in (vbuild.BACKENDS if thorough else ["spqlios-fma", "nayuki-portable", "fftw"]):
        for k in (1, 2):
            jobs.append(Job("tlwe-%s-k%d" % (be, k), "drv_c07", "optim", be, ["--mode", "tlwe", "--k", k, "--samples", 120 if thorough else 30, "--seed", seed], timeout=3600))
    keysets = [(128, 0)] if not thorough else [(128, 0), (128, 1), (128, 2), (128, 3), (80, 0), (80, 1), (80, 2), (80, 3)]
    if not thorough:
        keysets.append((80, 0))
    for lam, sh in keysets:
        jobs.append(Job("keys-%d-%d" % (lam, sh), "drv_c07", "optim", "spqlios-fma",
                        ["--mode", "keys", "--lambda", lam, "--seed", seed, "--shard", sh, "--coefs", 256 if thorough else 64, "--threads", 8], timeout=3600, weight=8))
    jobs.append(Job("keys-custom", "drv_c07", "optim", "nayuki-avx", ["--mode", "keys", "--lambda", 0, "--seed", seed, "--threads", 8], timeout=3600, weight=8))
    jobs.append(Job("keys-custom-debug", "drv_c07", "debug", "spqlios-fma", ["--mode", "keys", "--lambda", 0, "--seed", seed + 1, "--threads", 8], timeout=3600, weight=8))
    for i, al in enumerate([2.0 ** -15, 2.44e-5] + ([2.0 ** -20, 2.0 ** -25] if thorough else [])):
        jobs.append(Job("ksrows-%d" % i, "drv_c07", "optim", "spqlios-fma", ["--mode", "ksrows", "--n_in", 65536 if thorough else 16384, "--n_out", 8, "--alpha", al, "--seed", seed, "--shard", i], timeout=3600))
    # the sampler far into its tails (events of probability ~1e-9 per draw spoil one generated key in a few hundred)
    for i in range(64 if thorough else 16):
        jobs.append(Job("tail-%d" % i, "drv_c07", "optim", "spqlios-fma", ["--mode", "tail", "--alpha", 2.0 ** -25 if i % 2 == 0 else 2.0 ** -15,
                                                                       "--count", 6e8 if thorough else 1.5e8, "--seed", seed, "--shard", i], timeout=7200))
    for i in range(4 if thorough else 2):
        jobs.append(Job("keybits-%d" % i, "drv_c07", "optim" if i % 2 == 0 else "debug", "spqlios-fma" if i % 2 == 0 else "nayuki-portable",
                        ["--mode", "keybits", "--keys", 6000 if thorough else 2000, "--seed", seed, "--shard", i], timeout=3600))
    jobs.append(Job("seeding", "drv_c07", "optim", "spqlios-fma", ["--mode", "seeding", "--seed", seed], timeout=1800))
    jobs.append(Job("seeding-fftw", "drv_c07", "optim", "fftw", ["--mode", "seeding", "--seed", seed + 1], timeout=1800))

    def post(results, agg):
        viols = []
        table = {}
        pooled = {}
        for r in results:
            for e in r.by_type("stat"):
                st = e["stat"]
                if st.get("kind") == "noise":
                    key = st["cell"] + (":alpha=2^%.2f" % math.log2(st["alpha"]) if st["cell"].startswith("ks-key") else "")
                    key = "%s|%s" % (r.job.backend if st["cell"].startswith("fresh-tlwe") else "-", key)
                    a = pooled.get(key)
                    if a is None:
                        pooled[key] = dict(st, _r=r)
                    else:
                        for f in ("n", "s1", "s2", "s3", "s4", "beyond_5_sigma", "beyond_6_sigma"):
                            if f in st:
                                a[f] += st[f]
                        a["max"] = max(a["max"], st["max"])
                elif st.get("kind") == "mask":
                    n = st["n"]
                    bad = []
                    for b in range(4):
                        if st["chi2_byte%d" % b] > 480:
                            bad.append("byte%d chi2=%.1f" % (b, st["chi2_byte%d" % b]))
                    if abs(st["lag1_corr"]) > 8 / math.sqrt(n) + 2e-4:
                        bad.append("lag1=%.2e" % st["lag1_corr"])
                    if abs(st["mean_over_2^31"]) > 8 * math.sqrt(1 / 3.0 / n):
                        bad.append("mean=%.2e" % st["mean_over_2^31"])
                    if abs(st["var_over_uniform"] - 1) > 8 * math.sqrt(0.8 / n):
                        bad.append("var/uniform=%.5f" % st["var_over_uniform"])
                    table["mask|" + st["cell"] + "|" + r.job.name] = {k: (round(v, 6) if isinstance(v, float) else v) for k, v in st.items() if k not in ("kind", "cell", "_job")}
                    if bad:
                        viols.append(("noise:mask-not-uniform:" + st["cell"].split(":seed")[0], {"cell": st["cell"], "problems": bad, "stats": st}, r))
                elif st.get("kind") == "keybits":
                    # number of statistics looked at: len positions, ~2000 residue classes, 64 lags: 8 sigma + a union allowance
                    import math as _m
                    lim = lambda count: 8.0 + _m.sqrt(2 * _m.log(max(count, 2)))
                    probs = []
                    if abs(st["z_total_balance"]) > 8:
                        probs.append(("total-balance", st["z_total_balance"]))
                    if abs(st["z_worst_position"]) > lim(st["length"]):
                        probs.append(("position-%d" % st["worst_position"], st["z_worst_position"]))
                    if abs(st["z_worst_residue_class"]) > lim(2100):
                        probs.append(("positions-%d-mod-%d" % (st["class_residue"], st["class_modulus"]), st["z_worst_residue_class"]))
                    if abs(st["z_worst_lag"]) > lim(64):
                        probs.append(("lag-%d" % st["worst_lag"], st["z_worst_lag"]))
                    table["keybits|" + st["key"] + "|" + r.job.name] = {k: (round(v, 3) if isinstance(v, float) else v) for k, v in st.items() if k not in ("kind", "_job")}
                    for what, z in probs:
                        viols.append(("noise:key-bits-not-balanced:%s" % st["key"], {"statistic": what, "z": z, "stats": st}, r))
                elif st.get("kind") == "keybalance":
                    for nm in ("lwe", "ring"):
                        ones, tot = st[nm + "_ones"], st[nm + "_n"]
                        if abs(ones - tot / 2.0) > 8 * math.sqrt(tot / 4.0):
                            viols.append(("noise:key-not-balanced:" + nm, {"config": st["config"], "ones": ones, "length": tot}, r))
        for key, st in sorted(pooled.items()):
            problems, info = judge_noise(st)
            if st.get("min_row_second_moment") is not None:
                v_model, _ = trunc_moments(st["alpha"] * 4294967296.0)
                info["row_second_moment_ratio_min_max"] = [st["min_row_second_moment"] / v_model, st["max_row_second_moment"] / v_model]
                c = st.get("coefs_per_row", 128)
                lo_r, hi_r = (0.3, 3.0) if c >= 64 else (0.1, 5.0)
                if st["min_row_second_moment"] / v_model < lo_r:
                    problems.append("row-noise-too-small(row %d)" % st["min_row"])
                if st["max_row_second_moment"] / v_model > hi_r:
                    problems.append("row-noise-too-large(row %d)" % st["max_row"])
            if st.get("group_sum_second_moment") is not None and st.get("rows_per_source_coefficient"):
                # fresh noise per row: the sum of the B rows of one source coefficient has variance B sigma^2
                v_model, _ = trunc_moments(st["alpha"] * 4294967296.0)
                ratio = st["group_sum_second_moment"] / (st["rows_per_source_coefficient"] * v_model)
                info["group_sum_variance_over_B_sigma2"] = ratio
                if ratio < 0.25 or ratio > 4.0:
                    problems.append("rows-not-independent")
            if "sum_err_units" in st:
                info["recentred_sum_units(informational)"] = st["sum_err_units"]
            table[key] = {k: (round(v, 6) if isinstance(v, float) else v) for k, v in info.items()}
            for pr in problems:
                cell = key.split("|", 1)[1]
                cell = cell.split(":seed")[0] + (":" + cell.split(":", 2)[2] if ":seed" in cell and cell.count(":") >= 2 else "")
                viols.append(("noise:%s:%s" % (pr.split("(")[0], cell), dict(info, cell=key, problem=pr), st["_r"]))
        return viols, {"noise_table": table}

    return vcheck.simple_run("C07", tier, seed, t0, jobs, "exploration", RULE,
                             ["model = Gaussian truncated toward zero to a multiple of 2^-32 (the sampler's discretisation); TLWE rows get an allowance of (2k)^2 units^2 for the FFT used inside encryption",
                              "statistical acceptance regions >= 8 estimator standard errors (+0.5% on sigma for the minstd_rand0 generator)"],
                             min_evaluations=10000, post=post)
