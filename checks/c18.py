"""C18: truncated or mistyped serialized input is never accepted silently."""
import vcheck
from vcheck import Job

RULE = ("one evaluation = one import in a forked child; cell = (fault family, object kind). Families: every byte offset of the "
        "export of each of the 15 exporter/importer kinds with tiny parameters (key sets: N=1024, n=2, l=1, t=1; sampled at "
        "section boundaries in the quick tier, every offset in the thorough tier), every ordered pair (exporter A, importer B), "
        "every single-byte corruption (255 values) of every 4-byte type tag and 2-5 corruptions of every character of every "
        "BEGIN/END title line; both transports; optim and ASan builds. Oracle: returning normally with a clean stream (FILE*: "
        "returning at all) is legitimate only if the re-export of the returned object is the consumed front of the input; "
        "SIGSEGV outside page 0, hangs and sanitizer reports are violations; termination (abort, NULL property map) is accepted")


def run(tier, seed, t0):
    thorough = tier == "thorough"
    jobs = []
    ns = 16
    for i in range(ns):
        jobs.append(Job("prefix-%d" % i, "drv_c18", "optim", "spqlios-fma",
                        ["--mode", "prefix", "--seed", seed, "--shard", i, "--nshards", ns, "--max_offsets", 0 if thorough else 1500], timeout=7200))
    # objects whose last array is read with one large request (n or N >= 4096): sampled offsets, dense inside the last array
    for kind in ("LweKey", "TLweKey", "TGswKey", "LweSample", "TLweSample"):
        jobs.append(Job("prefix-large-%s" % kind, "drv_c18", "optim", "spqlios-fma",
                        ["--mode", "prefix", "--seed", seed, "--size", 3, "--kind", kind, "--max_offsets", 6000 if thorough else 1500], timeout=7200))
    for i in range(4):
        jobs.append(Job("substitute-%d" % i, "drv_c18", "optim", "spqlios-fma",
                        ["--mode", "substitute", "--seed", seed, "--shard", i, "--nshards", 4], timeout=3600))
    nc = 16
    for i in range(nc):
        jobs.append(Job("corrupt-%d" % i, "drv_c18", "optim", "spqlios-fma",
                        ["--mode", "corrupt", "--seed", seed, "--shard", i, "--nshards", nc], timeout=7200))
    # the same families under ASan+UBSan (out-of-bounds while rejecting); leak checking off: children _exit
    na = 8
    for i in range(na):
        jobs.append(Job("asan-prefix-%d" % i, "drv_c18", "asan", "spqlios-fma",
                        ["--mode", "prefix", "--seed", seed, "--shard", i, "--nshards", na, "--max_offsets", 1500 if thorough else 300],
                        timeout=7200, meta={"leaks": False}))
    for i in range(2):
        jobs.append(Job("asan-substitute-%d" % i, "drv_c18", "asan", "spqlios-fma",
                        ["--mode", "substitute", "--seed", seed, "--shard", i, "--nshards", 2], timeout=3600, meta={"leaks": False}))
    if not thorough:     # title-line corruptions (incl. newlines and NULs inside a title) under ASan at the quick tier too
        for i in range(4):
            jobs.append(Job("asan-corrupt-titles-%d" % i, "drv_c18", "asan", "spqlios-fma",
                            ["--mode", "corrupt", "--titles_only", 1, "--seed", seed, "--shard", i, "--nshards", 4], timeout=7200, meta={"leaks": False}))
    if thorough:
        for i in range(8):
            jobs.append(Job("asan-corrupt-%d" % i, "drv_c18", "asan", "spqlios-fma",
                            ["--mode", "corrupt", "--seed", seed, "--shard", i, "--nshards", 8], timeout=7200, meta={"leaks": False}))
        for i in range(4):
            jobs.append(Job("debug-prefix-%d" % i, "drv_c18", "debug", "nayuki-portable",
                            ["--mode", "prefix", "--seed", seed + 1, "--shard", i, "--nshards", 4, "--max_offsets", 1500], timeout=7200))

    def post(results, agg):
        tally = {}
        for r in results:
            for e in r.by_type("stat"):
                s = e["stat"]
                if s.get("kind") == "outcomes":
                    for k, v in s["tally"].items():
                        parts = k.split("|")
                        kk = "%s|%s|%s" % (parts[0], parts[2], parts[3])
                        tally[kk] = tally.get(kk, 0) + v
        return [], {"outcome_classes": dict(sorted(tally.items())), "exhaustive": bool(thorough)}

    return vcheck.simple_run("C18", tier, seed, t0, jobs, "fault_enumeration", RULE,
                             ["a SIGSEGV whose fault address lies in page 0 (the NULL property map the text parser returns at end of input) is termination, which the property accepts",
                              "single exports only: the text parser documents that it skips anything before a recognised BEGIN line"],
                             min_evaluations=5000, post=post)
