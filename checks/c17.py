"""C17: the exported cloud key contains only public evaluation material."""
import vbuild
import vcheck
from vcheck import Job

RULE = ("cell = one key set (parameter set x seed). Byte-level oracle on the exports: cloud == P || LWEKSPARAMS || ks-content || "
        "bk-content with closed-form sizes and P byte-identical to the export of the parameter set; cloud is a strict prefix of "
        "the secret export and the remainder is exactly tag43+LWE key, tag169+ring key; no window of 64 consecutive secret-key "
        "words with >= 8 ones (LWE key, ring key, extracted key; plain and tagged encodings) occurs anywhere in the cloud bytes "
        "(each window = one evaluation); both transports identical; import without secret input, 14 gates x 8 tuples decrypt "
        "correctly under the original secret key")


def run(tier, seed, t0):
    thorough = tier == "thorough"
    jobs = []
    seeds = [seed, seed + 1, seed + 2, seed + 3] if thorough else [seed, seed + 1]
    for s in seeds:
        jobs.append(Job("small-s%d" % s, "drv_c17", "optim", "spqlios-fma", ["--seed", s, "--count", 8], timeout=1800))
    jobs.append(Job("large-ks-table", "drv_c17", "optim", "spqlios-fma", ["--seed", seed + 12, "--count", 3 if thorough else 2, "--large", 1], timeout=3600, weight=2))
    jobs.append(Job("regenerated-from-imported-secret", "drv_c17", "optim", "spqlios-fma", ["--seed", seed + 13, "--count", 8 if thorough else 4, "--origin", 1], timeout=3600))
    jobs.append(Job("regenerated-from-imported-secret-debug", "drv_c17", "debug", "nayuki-portable", ["--seed", seed + 14, "--count", 2, "--origin", 1], timeout=3600))
    jobs.append(Job("small-nayuki", "drv_c17", "optim", "nayuki-portable", ["--seed", seed + 10, "--count", 4], timeout=1800))
    jobs.append(Job("small-debug", "drv_c17", "debug", "spqlios-fma", ["--seed", seed + 11, "--count", 3], timeout=1800))
    defaults = [(80, seed, 64)] if not thorough else [(80, seed, 8), (80, seed + 1, 8), (128, seed, 8), (128, seed + 1, 8)]
    for lam, s, stride in defaults:
        jobs.append(Job("default%d-s%d" % (lam, s), "drv_c17", "optim", "spqlios-fma", ["--seed", s, "--lambda", lam, "--stride", stride], timeout=3600, weight=3))
    if thorough:
        jobs.append(Job("default128-fftw", "drv_c17", "optim", "fftw", ["--seed", seed + 5, "--lambda", 128, "--stride", 32], timeout=3600, weight=3))
    return vcheck.simple_run("C17", tier, seed, t0, jobs, "exploration", RULE,
                             ["keys shorter than 64 words are searched whole when n >= 32 and not at all below that; windows with fewer than 8 ones are skipped (the export legitimately contains long runs of zero words)",
                              "chance match of a 64-word window < 2^-250"],
                             min_evaluations=200)
