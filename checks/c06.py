"""C06: homomorphic evaluation is deterministic, thread-safe and history-independent."""
import os

import vbuild
import vcheck
from vcheck import Job

RULE = ("one evaluation = one byte comparison of a job's output (9 gates, tfhe_bootstrap(_woKS)(_FFT), both external products, key "
        "switch, FFT product; two cloud keys) with the single-thread reference, made by a freshly created thread among T in "
        "{1,..,64} running the jobs in seeded random order, interleaved with unrelated history-noise operations, while one more "
        "thread generates keys on its own data. cell = (build/back-end/parameter set, T). The same workload runs under "
        "ThreadSanitizer (FFTW planner calls interposed by a shim that writes a shadow variable) and under helgrind on the "
        "valgrind flavor (hand-written assembly, libfftw3); any race report with a library frame is a violation")

SHIM = os.path.join(vbuild.VERIF, "harness", "c06", "fftw_shim.cpp")


def j(name, fl, be, args, tool=None, timeout=1800, weight=4):
    extra = (SHIM,) if (fl == "tsan" and be == "fftw") else ()
    return Job(name, "drv_c06", fl, be, args, tool=tool, timeout=timeout, weight=weight, extra_srcs=extra, meta={"leaks": False})


def run(tier, seed, t0):
    thorough = tier == "thorough"
    jobs = []
    if thorough:
        for be in vbuild.BACKENDS:
            for s in range(3):
                jobs.append(j("cmp-small-%s-s%d" % (be, s), "optim", be, ["--seed", seed + s, "--threads", "1,2,4,8,16,32,64", "--rounds", 2, "--passes", 2, "--fork", 1 if s == 0 else 0], weight=16, timeout=3600))
            jobs.append(j("cmp-default128-%s" % be, "optim", be, ["--seed", seed, "--lambda", 128, "--threads", "4,16,32", "--rounds", 1, "--slowjobs", 0], weight=16, timeout=3600))
            for sd in range(3):
                jobs.append(j("cmp-detached-%s-s%d" % (be, sd), "optim", be, ["--seed", seed + sd, "--detached", 1, "--threads", "2,3,4,6,8,16,32", "--rounds", 10, "--slowjobs", 0], weight=16, timeout=3600))
            ncpu = os.cpu_count() or 1
            for mask, th in ((",".join(str(c) for c in range(0, ncpu, 4)) if ncpu >= 8 else "0", "4,8,16"), (",".join(str(c) for c in range(1, ncpu, 2)) if ncpu >= 4 else "0", "8"), (str(min(5, ncpu - 1)), "6")):
                jobs.append(j("affinity-%s-%s" % (be, mask.replace(",", "_")), "optim", be, ["--seed", seed + 4, "--threads", th, "--rounds", 6, "--slowjobs", 0, "--affinity", mask, "--keygen", 0], weight=4, timeout=3600))
            jobs.append(j("tsan-detached-%s" % be, "tsan", be, ["--seed", seed, "--detached", 1, "--threads", "2,6", "--rounds", 4, "--slowjobs", 0], tool="tsan", weight=8, timeout=3600))
            jobs.append(j("tsan-%s" % be, "tsan", be, ["--seed", seed, "--threads", "2,8,16", "--rounds", 3, "--slowjobs", 0], tool="tsan", weight=8, timeout=3600))
            jobs.append(j("helgrind-%s" % be, "vg", be, ["--seed", seed, "--threads", "4", "--rounds", 2, "--slowjobs", 0, "--n", 8, "--warm", 1, "--keygen", 1 if be == "spqlios-fma" else 0], tool="helgrind", weight=4, timeout=7200))
        for be in vbuild.BACKENDS:
            jobs.append(j("longrun-%s" % be, "optim", be, ["--seed", seed + 2, "--threads", "1", "--rounds", 1, "--keygen", 0, "--n", 8, "--longrun", 70000], weight=1, timeout=7200))
        jobs.append(j("cmp-debug-spqlios-fma", "debug", "spqlios-fma", ["--seed", seed, "--threads", "4,16", "--rounds", 1], weight=8, timeout=3600))
        jobs.append(j("cmp-debug-fftw", "debug", "fftw", ["--seed", seed, "--threads", "4,16", "--rounds", 1], weight=8, timeout=3600))
    else:
        jobs.append(j("cmp-small-spqlios-fma", "optim", "spqlios-fma", ["--seed", seed, "--threads", "1,2,4,8,16,32", "--rounds", 2], weight=8))
        jobs.append(j("cmp-small-nayuki-avx", "optim", "nayuki-avx", ["--seed", seed, "--threads", "1,4,16", "--rounds", 2], weight=8))
        jobs.append(j("cmp-small-nayuki-portable", "optim", "nayuki-portable", ["--seed", seed + 1, "--threads", "3,8", "--rounds", 2, "--keygen", 0], weight=8))
        jobs.append(j("cmp-small-fftw", "optim", "fftw", ["--seed", seed, "--threads", "2,8,16", "--rounds", 2, "--fork", 1], weight=8))
        jobs.append(j("fork-spqlios-avx", "optim", "spqlios-avx", ["--seed", seed + 3, "--threads", "2", "--rounds", 1, "--fork", 1, "--keygen", 0], weight=4))
        jobs.append(j("fork-nayuki-avx", "optim", "nayuki-avx", ["--seed", seed + 3, "--threads", "2", "--rounds", 1, "--fork", 1, "--keygen", 0], weight=4))
        jobs.append(j("cmp-default128-spqlios-fma", "optim", "spqlios-fma", ["--seed", seed, "--lambda", 128, "--threads", "8", "--rounds", 1, "--slowjobs", 0], weight=8))
        jobs.append(j("longrun-spqlios-fma", "optim", "spqlios-fma", ["--seed", seed + 2, "--threads", "1", "--rounds", 1, "--keygen", 0, "--n", 8, "--longrun", 70000], weight=1, timeout=3600))
        jobs.append(j("longrun-fftw", "optim", "fftw", ["--seed", seed + 2, "--threads", "1,2", "--rounds", 1, "--keygen", 0, "--n", 8, "--longrun", 70000], weight=1, timeout=3600))
        jobs.append(j("longrun-nayuki-portable", "optim", "nayuki-portable", ["--seed", seed + 2, "--threads", "1", "--rounds", 1, "--keygen", 0, "--n", 8, "--longrun", 3000], weight=1, timeout=3600))
        for be in vbuild.BACKENDS:
            jobs.append(j("cmp-detached-%s" % be, "optim", be, ["--seed", seed, "--detached", 1, "--threads", "2,4,6,8,16", "--rounds", 6, "--slowjobs", 0], weight=8))
        # CPU affinity masks: with holes, a single CPU, a contiguous block
        ncpu = os.cpu_count() or 1
        holes = ",".join(str(c) for c in range(0, ncpu, 4)) if ncpu >= 8 else "0"
        odd = ",".join(str(c) for c in range(1, ncpu, 2)) if ncpu >= 4 else "0"
        for k, (be, mask, th) in enumerate([("spqlios-fma", holes, "4,8"), ("spqlios-avx", odd, "8"), ("fftw", holes, "4"), ("nayuki-avx", odd, "6"),
                                            ("spqlios-fma", str(min(3, ncpu - 1)), "4"), ("nayuki-portable", "%d,%d" % (min(2, ncpu - 1), min(3, ncpu - 1)), "5")]):
            jobs.append(j("affinity-%s-%s" % (be, mask.replace(",", "_")), "optim", be, ["--seed", seed + 4 + k, "--threads", th, "--rounds", 3, "--slowjobs", 0, "--affinity", mask, "--keygen", 0], weight=4))
        jobs.append(j("tsan-nayuki-portable", "tsan", "nayuki-portable", ["--seed", seed, "--threads", "2,8", "--rounds", 2, "--slowjobs", 0], tool="tsan", weight=6))
        jobs.append(j("tsan-fftw", "tsan", "fftw", ["--seed", seed, "--threads", "2,8", "--rounds", 3, "--slowjobs", 0], tool="tsan", weight=6))
        jobs.append(j("helgrind-spqlios-fma", "vg", "spqlios-fma", ["--seed", seed, "--threads", "3", "--rounds", 1, "--slowjobs", 0, "--n", 8, "--warm", 1, "--keygen", 0], tool="helgrind", weight=4))

    def post(results, agg):
        tab = {}
        for r in results:
            for e in r.by_type("stat"):
                s = e["stat"]
                if s.get("kind") == "concurrency":
                    tab[r.job.name] = {k: v for k, v in s.items() if k not in ("kind", "_job")}
                    tab[r.job.name]["race_reports"] = len(r.tool_reports)
        return [], {"runs": tab}

    return vcheck.simple_run("C06", tier, seed, t0, jobs, "exploration", RULE,
                             ["interleavings are sampled (oversubscription, random start offsets, yields), not enumerated",
                              "TSan cannot see hand-written assembly or libfftw3: those are covered by helgrind and by the byte comparison"],
                             min_evaluations=500, post=post)
