"""C13: torus rounding / modulus switch functions round to nearest exactly."""
import vcheck
from vcheck import Job

RULE = ("cell = (function group, M, phase population); phases: all 2^32 (thorough) or one random phase per stratum of "
        "width 2^(32-lg) (quick) for M in {2,3,4,5,7,8,16,1000,1024,2048,4096,32768,2^30}; allM: every M in [2,2^15] "
        "with phases (k, k+1/2)*2^32/M +-3 for k in {0,1,2,M/2-1..M/2+1,M-2,M-1,M}+random, range ends, and every mu; "
        "conv: dtot32(t32tod(x))==x, range of t32tod, periodicity. Oracle: 128-bit integer distance |M*phase - r*2^32| "
        "<= 2^31 cyclically, r in [0,M), approxPhase == modSwitchToTorus32(r)")


def run(tier, seed, t0):
    thorough = tier == "thorough"
    lg = 32 if thorough else 24
    jobs = []
    ns = 16
    for i in range(ns):
        jobs.append(Job("phases-%d" % i, "drv_c13", "optim", "spqlios-fma",
                        ["--mode", "phases", "--seed", seed, "--log2count", lg, "--shard", i, "--nshards", ns],
                        timeout=3600))
    for i in range(8):
        jobs.append(Job("allM-%d" % i, "drv_c13", "optim", "spqlios-fma",
                        ["--mode", "allM", "--seed", seed, "--shard", i, "--nshards", 8], timeout=1800))
    for i in range(4):
        jobs.append(Job("conv-%d" % i, "drv_c13", "optim", "spqlios-fma",
                        ["--mode", "conv", "--seed", seed, "--log2count", lg, "--shard", i, "--nshards", 4],
                        timeout=1800))
    # the debug configuration compiles the same source without optimisation
    for i in range(4):
        jobs.append(Job("debug-phases-%d" % i, "drv_c13", "debug", "nayuki-portable",
                        ["--mode", "phases", "--seed", seed + 5, "--log2count", 22 if thorough else 18, "--shard", i, "--nshards", 4],
                        timeout=1800))
    jobs.append(Job("debug-allM", "drv_c13", "debug", "nayuki-portable",
                    ["--mode", "allM", "--seed", seed + 5, "--maxM", 4096], timeout=1800))
    jobs.append(Job("debug-conv", "drv_c13", "debug", "nayuki-portable",
                    ["--mode", "conv", "--seed", seed + 5, "--log2count", 20], timeout=1800))
    # several threads at once, each with its own message space; natively and under ThreadSanitizer
    jobs.append(Job("threads-optim", "drv_c13", "optim", "spqlios-fma", ["--mode", "threads", "--threads", 6, "--iters", 2e7 if thorough else 3e6, "--seed", seed + 11], timeout=3600))
    jobs.append(Job("threads-debug", "drv_c13", "debug", "nayuki-portable", ["--mode", "threads", "--threads", 12, "--iters", 2e6 if thorough else 4e5, "--seed", seed + 12], timeout=3600))
    jobs.append(Job("threads-tsan", "drv_c13", "tsan", "nayuki-portable", ["--mode", "threads", "--threads", 4, "--iters", 2e5, "--seed", seed + 13], tool="tsan", timeout=3600, meta={"leaks": False}))
    # environment: the application has set another floating-point rounding direction (the unchanged functions are insensitive)
    for k, mode in enumerate(("upward", "downward", "towardzero")):
        fl, be = (("optim", "spqlios-fma"), ("debug", "nayuki-portable"), ("optim", "fftw"))[k]
        jobs.append(Job("phases-fpround-%s" % mode, "drv_c13", fl, be, ["--mode", "phases", "--seed", seed + 7 + k, "--log2count", 22 if thorough else 18],
                        timeout=1800, env={"VH_FPROUND": mode}))
        jobs.append(Job("allM-fpround-%s" % mode, "drv_c13", "optim", "spqlios-fma", ["--mode", "allM", "--seed", seed + 7 + k, "--maxM", 32768 if thorough else 2048],
                        timeout=1800, env={"VH_FPROUND": mode}))
        jobs.append(Job("conv-fpround-%s" % mode, "drv_c13", "optim", "spqlios-fma", ["--mode", "conv", "--seed", seed + 7 + k, "--log2count", 22 if thorough else 18],
                        timeout=1800, env={"VH_FPROUND": mode}))
    extra = {"exhaustive": bool(thorough),
             "explanation_scope": "Msize is an int32_t, so M = 2^31 is not expressible through the API; the largest power of two explored is 2^30"}
    return vcheck.simple_run("C13", tier, seed, t0, jobs, "exploration", RULE,
                             ["harness oracle uses unsigned __int128 integer arithmetic written from the definition",
                              "M = 2^31 cannot be passed (int32_t parameter); 2^30 is the largest power of two explored"],
                             min_evaluations=100000, extra_cov=extra)
