"""C20: all FFT back-end libraries are drop-in interchangeable and usable from C.

Observation of built artifacts (shared objects built from the current tree) and of short probe executions."""
import ctypes
import glob
import json
import os
import re
import subprocess
import tempfile
import time

import vbuild
import vcheck
from vcheck import Job

INTERNAL_CPP_ONLY = {"tfhe_garbage_collector.h", "tfhe_generic_streams.h"}


def sh(cmd, cwd=None):
    r = subprocess.run(cmd, shell=True, cwd=cwd, stdout=subprocess.PIPE, stderr=subprocess.STDOUT, text=True)
    return r.returncode, r.stdout


def strip_comments(s):
    s = re.sub(r"/\*.*?\*/", " ", s, flags=re.S)
    s = re.sub(r"//[^\n]*", " ", s)
    return s


def declared_exports(inc):
    names = {}
    for h in sorted(glob.glob(os.path.join(inc, "*.h"))):
        if os.path.basename(h) in INTERNAL_CPP_ONLY or os.path.basename(h) == "tfhe_generic_templates.h":
            continue   # the templates header only defines the macro that generates allocators
        txt = strip_comments(open(h, errors="replace").read())
        for m in re.finditer(r"\bEXPORT\b([^;{]*?)\(", txt, flags=re.S):
            decl = m.group(1).strip()
            mm = re.search(r"(\w+)\s*$", decl)
            if mm and mm.group(1) not in ("define",):
                names.setdefault(mm.group(1), os.path.basename(h))
    names.pop("extern", None)
    return names


def split_views(body):
    """returns (c_view_text, cpp_only_text) of a struct body"""
    c, cpp, mode, depth = [], [], "c", 0
    for ln in body.split("\n"):
        s = ln.strip()
        if re.match(r"#\s*ifdef\s+__cplusplus", s):
            mode = "cpp"
            continue
        if re.match(r"#\s*ifndef\s+__cplusplus", s):
            mode = "conly"
            continue
        if re.match(r"#\s*else", s):
            mode = "conly" if mode == "cpp" else "cpp"
            continue
        if re.match(r"#\s*endif", s):
            mode = "c"
            continue
        if mode == "c":
            c.append(ln)
            cpp.append(ln)
        elif mode == "cpp":
            cpp.append(ln)
        else:
            c.append(ln)
    return "\n".join(c), "\n".join(cpp)


def data_members(text):
    # drop nested {...} (inline function bodies)
    prev = None
    while prev != text:
        prev = text
        text = re.sub(r"\{[^{}]*\}", " ", text)
    out = []
    for piece in text.split(";"):
        p = piece.strip()
        if not p or "(" in p or p.startswith(("public", "private", "protected")) and ":" in p and len(p.split()) == 1:
            continue
        p = re.sub(r"^(public|private|protected)\s*:", "", p).strip()
        if not p or "(" in p:
            continue
        m = re.search(r"(\w+)\s*(\[[^\]]*\])?\s*$", p)
        if m:
            out.append(m.group(1))
    return out


def parse_structs(inc):
    structs = {}
    for h in sorted(glob.glob(os.path.join(inc, "*.h"))):
        if os.path.basename(h) in INTERNAL_CPP_ONLY:
            continue
        txt = strip_comments(open(h, errors="replace").read())
        for m in re.finditer(r"\bstruct\s+(\w+)\s*\{", txt):
            name = m.group(1)
            i = m.end()
            depth = 1
            while i < len(txt) and depth:
                if txt[i] == "{":
                    depth += 1
                elif txt[i] == "}":
                    depth -= 1
                i += 1
            body = txt[m.end():i - 1]
            cv, cppv = split_views(body)
            structs[name] = {"header": os.path.basename(h), "c": data_members(cv), "cpp": data_members(cppv)}
    return structs


def layout_table(structs, lang, inc, tmp, first=None):
    lines = ['#include <stdio.h>', '#include <stddef.h>'] + (['#include "%s"' % first] if first else []) + ['#include "tfhe.h"', "int main(void) {"]
    for s, d in sorted(structs.items()):
        lines.append('printf("%s sizeof %%lu\\n", (unsigned long) sizeof(struct %s));' % (s, s))
        for f in d["c"]:
            lines.append('printf("%s.%s off %%lu size %%lu\\n", (unsigned long) offsetof(struct %s, %s), (unsigned long) sizeof(((struct %s*)0)->%s));'
                         % (s, f, s, f, s, f))
    lines += ["return 0;", "}"]
    tag = (first or "umbrella").replace(".", "_").replace("-", "_")
    src = os.path.join(tmp, "layout_%s.%s" % (tag, "c" if lang == "c" else "cpp"))
    open(src, "w").write("\n".join(lines))
    exe = os.path.join(tmp, "layout_%s_%s" % (lang, tag))
    cc = "gcc -std=c99" if lang == "c" else "g++ -std=gnu++11 -Wno-invalid-offsetof"
    rc, o = sh("%s -I%s %s -o %s" % (cc, inc, src, exe))
    if rc:
        return None, o
    rc, o = sh(exe)
    return (o if rc == 0 else None), o


def run(tier, seed, t0):
    repo = vbuild.REPO
    inc = os.path.join(repo, "src", "include")
    viols, inconclusive = [], []
    decisions = 0
    samples = []
    cells = {}
    tmp = tempfile.mkdtemp(prefix="c20-", dir=vcheck.work_dir())
    try:
        # (i) exported symbol sets of the ten shared objects
        declared = declared_exports(inc)
        libs = {}
        for fl in ("optim", "debug"):
            for be in vbuild.BACKENDS:
                libs[(fl, be)] = vbuild.build_lib(fl, be, shared=True)
        resolved = {}
        nmtab = {}
        for key, path in libs.items():
            try:
                L = ctypes.CDLL(path, mode=ctypes.RTLD_LOCAL)
            except OSError as e:
                viols.append(("abi:dlopen-failed:%s:%s" % key, {"error": str(e)}, None))
                continue
            res = set()
            for nm in declared:
                try:
                    getattr(L, nm)
                    res.add(nm)
                except AttributeError:
                    pass
            resolved[key] = res
            rc, o = sh("nm -D --defined-only %s" % path)
            plain, mangled = set(), set()
            for ln in o.splitlines():
                p = ln.split()
                if len(p) >= 3 and p[1] in "TtWwBbDdRrVvi":
                    sym = p[2].split("@")[0]
                    if sym.startswith("_Z"):
                        mangled.add(sym)
                    else:
                        plain.add(sym)
            rc, o2 = sh("nm -D -C --defined-only %s" % path)
            dem = set()
            for ln in o2.splitlines():
                mm = re.search(r"\s[TtWw]\s+(?:\w+::)*(\w+)\(", ln)
                if mm:
                    dem.add(mm.group(1))
            nmtab[key] = (plain, dem)
            decisions += len(declared)
            cells["symbols:%s:%s" % key] = len(res)
        if resolved:
            ref_key = ("optim", "spqlios-fma") if ("optim", "spqlios-fma") in resolved else sorted(resolved)[0]
            ref = resolved[ref_key]
            union = set().union(*resolved.values())
            for key, res in sorted(resolved.items()):
                missing = sorted(union - res)
                if missing:
                    viols.append(("abi:symbol-set-differs:%s:%s" % key,
                                  {"variant": key, "missing_but_present_in_other_variants": missing[:40]}, None))
                plain, dem = nmtab[key]
                cpp_only = sorted(n for n in declared if n not in plain and n in dem)
                if cpp_only:
                    viols.append(("abi:cxx-linkage-only:%s:%s" % key, {"variant": key, "names": cpp_only[:40]}, None))
            never = sorted(set(declared) - union)
            samples.append({"declared_functions": len(declared), "resolved_in_every_variant": len(ref),
                            "declared_but_defined_nowhere(same in all variants)": never})
        # (ii) every public header alone as C99 and as C++11
        hdrs = [h for h in sorted(os.listdir(inc)) if h.endswith(".h") and h not in INTERNAL_CPP_ONLY]
        for h in hdrs:
            import shutil
            compilers = [("c99", "gcc -std=c99 -Wall -Werror -x c"), ("c++11", "g++ -std=gnu++11 -Wall -Werror -x c++"),
                         # compilers that enforce the language standard (a client may well use them): ISO C99 and ISO C++11, no extensions
                         ("c99-strict", "gcc -std=c99 -pedantic-errors -Wall -x c"), ("c++11-strict", "g++ -std=c++11 -pedantic-errors -Wall -x c++")]
            if shutil.which("clang"):
                compilers += [("c99-clang", "clang -std=c99 -Wall -Werror -x c"), ("c99-clang-strict", "clang -std=c99 -pedantic-errors -Wall -x c"), ("c++11-clang", "clang++ -std=c++11 -Wall -Werror -x c++")]
            for lang, cc in compilers:
                # a translation unit that includes the header and declares something of its own (ISO C forbids an empty one)
                tu = os.path.join(tmp, "tu_%s.%s" % (h.replace(".", "_"), "c" if lang.startswith("c99") else "cpp"))
                with open(tu, "w") as fh:
                    fh.write('#include "%s"\nextern int c20_translation_unit_is_not_empty;\n' % h)
                rc, o = sh("%s -fsyntax-only -I%s %s" % (cc, inc, tu))
                decisions += 1
                cells["header:%s:%s" % (h, lang)] = 1
                if rc:
                    viols.append(("abi:header-does-not-compile:%s:%s" % (h, lang), {"output": o[-1500:]}, None))
        # (iii) structures: same data members in both views, identical size/offset tables
        structs = parse_structs(inc)
        for s, d in sorted(structs.items()):
            decisions += 1
            if d["c"] != d["cpp"]:
                viols.append(("abi:fields-differ-between-views:" + s, {"struct": s, "c_view": d["c"], "cpp_view": d["cpp"]}, None))
        tc, oc = layout_table(structs, "c", inc, tmp)
        tp, op = layout_table(structs, "cpp", inc, tmp)
        if tc is None or tp is None:
            viols.append(("abi:layout-probe-does-not-compile", {"c": oc[-1200:], "cpp": op[-1200:]}, None))
        else:
            lc, lp = tc.splitlines(), tp.splitlines()
            decisions += len(lc)
            for a, b in zip(lc, lp):
                cells["layout:" + a.split()[0]] = 1
                if a != b:
                    viols.append(("abi:layout-differs:" + a.split()[0], {"c99": a, "c++11": b}, None))
            if len(lc) != len(lp):
                viols.append(("abi:layout-differs:table-length", {"c99": len(lc), "c++11": len(lp)}, None))
            samples.append({"layout_rows": len(lc), "first_rows": lc[:6]})
            # the layout a C program sees must not depend on which public header it includes first
            orders = 0
            for h in hdrs:
                for lang in ("c", "cpp"):
                    th, oh = layout_table(structs, lang, inc, tmp, first=h)
                    decisions += 1
                    orders += 1
                    cells["layout-order:%s:%s-first" % (lang, h)] = 1
                    if th is None:
                        viols.append(("abi:layout-probe-does-not-compile:%s-first:%s" % (h, lang), {"output": oh[-1200:]}, None))
                    elif th != tp:
                        diff = [(a, b) for a, b in zip(th.splitlines(), lp) if a != b][:6]
                        viols.append(("abi:layout-depends-on-include-order:%s:%s-first" % (lang, h), {"differing_rows(this order, reference)": diff}, None))
            samples.append({"include_orders_checked": orders})
        # (v) offsets hard-coded in the spqlios assembly
        src = os.path.join(tmp, "asmoff.cpp")
        open(src, "w").write('#include <stdio.h>\n#include <stddef.h>\n#include "lagrangehalfc_impl.h"\nint main(){printf("%lu %lu %lu %lu\\n",'
                             '(unsigned long)offsetof(LagrangeHalfCPolynomial_IMPL,coefsC),(unsigned long)offsetof(LagrangeHalfCPolynomial_IMPL,proc),'
                             '(unsigned long)offsetof(FFT_Processor_Spqlios,Ns2),(unsigned long)offsetof(LagrangeHalfCPolynomial,data));return 0;}\n')
        rc, o = sh("g++ -std=gnu++11 -Wno-invalid-offsetof -I%s -I%s/src/libtfhe/fft_processors/spqlios %s -o %s/asmoff && %s/asmoff" % (inc, repo, src, tmp, tmp))
        decisions += 1
        cells["asm-offsets:spqlios"] = 1
        if rc or o.split() != ["0", "8", "8", "0"]:
            viols.append(("abi:spqlios-asm-offsets", {"expected": "coefsC@0 proc@8 Ns2@8 data@0", "got": o[-600:]}, None))
        else:
            samples.append({"spqlios_asm_offsets(coefsC,proc,Ns2,data)": o.split()})
        # (v) a C99 program (-O0) that reaches every variant only through dlopen/dlsym: load, generate a key set, evaluate and
        # decrypt gates, release, unload; variant after variant, two variants at once (one on a second thread), the first again
        cdir0 = os.path.join(vbuild.VERIF, "harness", "c20")
        exe = os.path.join(tmp, "c20_dl")
        rc, o = sh("gcc -std=c99 -O0 -g -I%s %s -o %s -ldl -lpthread" % (inc, os.path.join(cdir0, "c20_dl.c"), exe))
        if rc:
            viols.append(("abi:c-program-using-dlopen-does-not-compile", {"output": o[-1500:]}, None))
        else:
            for fl in ("optim", "debug"):
                order = [libs[(fl, be)] for be in vbuild.BACKENDS if (fl, be) in libs]
                if fl == "debug":
                    order = order[::-1][:2] + [libs[("optim", "spqlios-fma")]]      # debug variants, and a debug and an optim variant together
                try:
                    r = subprocess.run([exe] + order, stdout=subprocess.PIPE, stderr=subprocess.STDOUT, text=True, timeout=1800)
                    rc2, o2 = r.returncode, r.stdout
                except subprocess.TimeoutExpired:
                    inconclusive.append("the dlopen program timed out (%s)" % fl)
                    continue
                steps = [ln for ln in o2.splitlines() if " wrong of 32" in ln]
                decisions += len(steps)
                cells["dlopen-program:%s:%d-load-use-unload-steps" % (fl, len(steps))] = len(steps)
                if rc2 != 0 or "RESULT PASS" not in o2:
                    viols.append(("abi:c-program-using-dlopen:%s" % fl, {"exit_status": rc2, "output": o2[-2500:]}, None))
                else:
                    samples.append({"dlopen_program_" + fl: [re.sub(r"/\S*/libtfhe-", "libtfhe-", ln) for ln in steps[:3]]})
        # (vi) a C99 program made of two source files that both include the public headers, linked against each variant
        for fl, bes in (("optim", vbuild.BACKENDS), ("debug", ["nayuki-portable"])):
            for be in bes:
                if (fl, be) not in libs:
                    continue
                exe2 = os.path.join(tmp, "c20_multi_%s_%s" % (fl, be))
                lib = libs[(fl, be)]
                rc, o = sh("gcc -std=c99 -O0 -Wall -I%s -c %s -o %s/ma.o && gcc -std=c99 -O2 -Wall -I%s -c %s -o %s/mb.o && gcc %s/ma.o %s/mb.o %s -Wl,-rpath,%s -o %s -lstdc++ -lm -lpthread %s"
                           % (inc, os.path.join(cdir0, "c20_multi_a.c"), tmp, inc, os.path.join(cdir0, "c20_multi_b.c"), tmp, tmp, tmp, lib, os.path.dirname(lib), exe2,
                              "-lfftw3" if be == "fftw" else ""))
                decisions += 1
                cells["multi-file-c-program:%s:%s" % (fl, be)] = 1
                if rc:
                    viols.append(("abi:multi-file-c-program-does-not-link:%s:%s" % (fl, be), {"output": o[-1500:]}, None))
                    continue
                if be in ("spqlios-fma", "nayuki-portable"):
                    rc2, o2 = sh(exe2)
                    decisions += 1
                    if rc2:
                        viols.append(("abi:multi-file-c-program-wrong-result:%s:%s" % (fl, be), {"exit_status": rc2, "output": o2[-800:]}, None))
    finally:
        subprocess.run("rm -rf %s" % tmp, shell=True)
    # (iv) cross-language object observation on every variant (optim) and two debug variants
    cdir = os.path.join(vbuild.VERIF, "harness", "c20")
    jobs = []
    for fl, bes in (("optim", vbuild.BACKENDS), ("debug", ["nayuki-portable", "spqlios-fma"])):
        for be in bes:
            jobs.append(Job("view-%s-%s" % (fl, be), "drv_c20", fl, be, ["--seed", seed],
                            extra_srcs=[os.path.join(cdir, "c20_cview.c")], extra_flags="-I" + cdir, timeout=900))
    results = vcheck.run_jobs(jobs)
    v2, inc2 = vcheck.collect_violations(results)
    viols += v2
    inconclusive += inc2
    agg = vcheck.aggregate(results)
    # the view digests must also agree between debug and optim of one back-end? no: keys differ only by build-independent seed
    agg["cells"].update(cells)
    agg["evaluations"] += decisions
    agg["samples"] = samples + agg["samples"][:3]
    cov = vcheck.generic_coverage(agg, "cell = (artifact, aspect): exported-symbol table of each of the 10 shared objects; each public header "
                                  "x {C99,C++11}; each (struct, field) row of the size/offset table in both languages; the object-graph dump of "
                                  "a k=2 custom key set and a default 128-bit key set through the C view and the C++ view on every variant",
                                  {"explanation": "observation of built artifacts (dlopen/dlsym, nm, compiler front ends) and of short probe "
                                                  "executions (layout tables, cross-language object dumps, a C program using the gate API)"})
    return vcheck.finish("C20", tier, seed, "other", viols, inconclusive, cov,
                         ["public headers = src/include/*.h minus the two C++-only internal headers (tfhe_garbage_collector.h, tfhe_generic_streams.h)",
                          "names declared EXPORT but defined in no variant are reported in the evidence, not as a violation of 'same set'"], t0)
