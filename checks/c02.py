"""C02: circuits of any depth stay correct; gate output noise bounded and input-independent."""
import json
import math
import os

import vbuild
import vcheck
from vcheck import Job

RULE = ("every gate of every netlist (random DAGs, in-place NAND chains of depth 200, balanced trees, fan-out 64 with re-use, "
        "8-bit ripple-carry adder, comparator, multiplexer tree, class probes with maximally noisy admissible inputs) is one "
        "evaluation: its output wire must decrypt to the plaintext interpreter's value and its phase error is logged. "
        "cell = (build/back-end/parameter set, gate, input class in {fresh, shallow, deep(depth>=10), inj(+-1/32)}); gates whose "
        "internal combination has an all-zero mask are trivial cells (no blind rotation: less noise by design). Offline oracles "
        "on the pooled errors: max < 3/64; sigma <= bound(1 + 8 SE); |mean| <= bound/4 + 8 sigma/sqrt(K); pairwise equality of "
        "variance and mean between input classes within 8 SE")


def moments(a):
    n = a["n"]
    m = a["s1"] / n
    var = max(a["s2"] / n - m * m, 0.0)
    m4 = a["s4"] / n  # about zero; mean is tiny relative to sigma
    kurt = (m4 / (var * var) - 3.0) if var > 0 else 0.0
    return n, m, var, kurt


def run(tier, seed, t0):
    thorough = tier == "thorough"
    spec = json.load(open(os.path.join(vbuild.VERIF, "spec", "default_params.json")))["noise_bound"]
    jobs = []
    if thorough:
        for be in vbuild.BACKENDS:
            slow = be.startswith("nayuki")
            for lam in (80, 128):
                ns = 8
                for i in range(ns):
                    jobs.append(Job("optim-%s-%d-%d" % (be, lam, i), "drv_c02", "optim", be,
                                    ["--seed", seed, "--lambda", lam, "--gates", 1300 if not slow else 650, "--shard", i], timeout=7200))
        for be in ("spqlios-fma", "nayuki-avx"):
            for lam in (80, 128):
                for i in range(2):
                    jobs.append(Job("debug-%s-%d-%d" % (be, lam, i), "drv_c02", "debug", be,
                                    ["--seed", seed + 3, "--lambda", lam, "--gates", 500, "--shard", i], timeout=7200))
    else:
        for lam in (80, 128):
            for i in range(5):
                jobs.append(Job("optim-spqlios-fma-%d-%d" % (lam, i), "drv_c02", "optim", "spqlios-fma",
                                ["--seed", seed, "--lambda", lam, "--gates", 900, "--shard", i], timeout=1800))
        jobs.append(Job("optim-nayuki-portable-80", "drv_c02", "optim", "nayuki-portable",
                        ["--seed", seed, "--lambda", 80, "--gates", 350], timeout=1800))
        jobs.append(Job("optim-fftw-128", "drv_c02", "optim", "fftw", ["--seed", seed, "--lambda", 128, "--gates", 500], timeout=1800))
        jobs.append(Job("debug-spqlios-fma-128", "drv_c02", "debug", "spqlios-fma",
                        ["--seed", seed + 3, "--lambda", 128, "--gates", 250], timeout=1800))

    for lam in (80, 128):
        for i in range(8 if thorough else 4):
            jobs.append(Job("keybias-%d-%d" % (lam, i), "drv_c02", "optim", "spqlios-fma",
                            ["--mode", "keybias", "--seed", seed, "--lambda", lam, "--count", 64 if thorough else 24, "--shard", i], timeout=3600))

    for i, j in enumerate(jobs):      # process history: every other native job first generates and uses a custom parameter set
        if j.tool is None and j.driver == "drv_c02" and i % 2 == 0:
            j.args = j.args + ["--prelude", "1"]

    def post(results, agg):
        viols = []
        pooled = {}
        keybias = {}
        for r in results:
            perkey = {}
            for e in r.by_type("stat"):
                s = e["stat"]
                if s.get("kind") == "keybias":
                    # exact expectation of every gate output's phase error under this key (no sampling error): property: <= bound/4
                    bits = "80" if s["config"].endswith("80bit") else "128"
                    b = s["expected_output_mean_from_key_switching_rows"]
                    keybias[r.job.name] = b
                    if abs(b) > 0.25 * spec[bits]:
                        viols.append(("noise:per-key-mean-above-quarter-bound:%s" % s["config"],
                                      {"job": r.job.name, "expected_output_mean": b, "limit": 0.25 * spec[bits],
                                       "how": "-(1/base) * sum of the noise of all key-switching rows, measured with the secret keys"}, r))
                if s.get("kind") == "keybias-sweep":
                    bits = "80" if s["config"].endswith("80bit") else "128"
                    sweep = keybias.setdefault("sweep:" + s["config"], 0.0)
                    keybias["sweep:" + s["config"]] = max(sweep, s["max_abs_expected_output_mean"])
                    over = [b for b in s["per_key"] if abs(b) > 0.25 * spec[bits]]
                    if over:
                        viols.append(("noise:per-key-mean-above-quarter-bound:%s" % s["config"],
                                      {"job": r.job.name, "keys": s["keys"], "keys_over_limit": len(over), "worst": max(over, key=abs), "rms_over_keys": s["rms"],
                                       "limit": 0.25 * spec[bits]}, r))
                if s.get("kind") == "noise" and "|BIN|" in s["cell"] and not s["cell"].endswith("zero-mask"):
                    a = perkey.setdefault(s["cell"].split("|")[0], {"n": 0, "s1": 0.0, "s2": 0.0})
                    for f in ("n", "s1", "s2"):
                        a[f] += s[f]
            for cfg, a in perkey.items():    # empirical per-key mean (one key per job)
                if a["n"] >= 200:
                    m = a["s1"] / a["n"]
                    sd = math.sqrt(max(a["s2"] / a["n"] - m * m, 0))
                    bits = "80" if cfg.endswith("80bit") else "128"
                    lim = 0.25 * spec[bits] + 8 * sd / math.sqrt(a["n"])
                    if abs(m) > lim:
                        viols.append(("noise:per-key-empirical-mean:%s" % cfg, {"job": r.job.name, "mean": m, "K": a["n"], "limit": lim}, r))
        for r in results:
            for e in r.by_type("stat"):
                s = e["stat"]
                if s.get("kind") != "noise":
                    continue
                a = pooled.setdefault(s["cell"], {"n": 0, "s1": 0.0, "s2": 0.0, "s4": 0.0, "max": 0.0, "r": r})
                a["n"] += s["n"]
                a["s1"] += s["s1"]
                a["s2"] += s["s2"]
                a["s4"] += s["s4"]
                a["max"] = max(a["max"], s["max"])
        # all non-trivial classes pooled per (config, group): the sharpest test of the sigma bound
        for cell, a in list(pooled.items()):
            cfg, grp, cls = cell.split("|")
            if grp in ("BIN", "MUX") and cls != "zero-mask":
                b = pooled.setdefault("%s|%s|all-classes" % (cfg, grp + "*"), {"n": 0, "s1": 0.0, "s2": 0.0, "s4": 0.0, "max": 0.0, "r": a["r"]})
                for k in ("n", "s1", "s2", "s4"):
                    b[k] += a[k]
                b["max"] = max(b["max"], a["max"])
        table = {}
        groups = {}
        for cell, a in sorted(pooled.items()):
            cfg, grp, cls = cell.split("|")
            if a["n"] < 30:
                continue
            n, m, var, kurt = moments(a)
            sd = math.sqrt(var)
            bits = "80" if cfg.endswith("80bit") else "128"
            bound = spec[bits] * (spec["mux_factor"] if grp in ("MUX", "MUX*", "gate:MUX") else 1.0)
            se_rel_sd = math.sqrt((max(kurt, 0.0) + 2.0) / (4.0 * n))
            lim_sd = bound * (1 + 8 * se_rel_sd)
            lim_mean = 0.25 * bound + 8 * sd / math.sqrt(n)
            table[cell] = {"K": n, "mean": m, "sigma": sd, "excess_kurtosis": round(kurt, 3), "max_abs": a["max"],
                           "sigma_limit": lim_sd, "mean_limit": lim_mean, "bound": bound}
            if a["max"] >= 3.0 / 64:
                viols.append(("noise:max:%s" % cell, table[cell], a["r"]))
            if sd > lim_sd:
                viols.append(("noise:sigma-above-bound:%s" % cell, table[cell], a["r"]))
            if abs(m) > lim_mean:
                viols.append(("noise:mean-above-quarter-bound:%s" % cell, table[cell], a["r"]))
            if grp in ("BIN", "MUX") and cls != "zero-mask":
                groups.setdefault((cfg, grp), []).append((cls, n, m, var, kurt, a["r"]))
        # input independence: same distribution for fresh / shallow / deep / maximally noisy admissible inputs
        comparisons = 0
        for (cfg, grp), lst in sorted(groups.items()):
            for i in range(len(lst)):
                for j in range(i + 1, len(lst)):
                    ca, na, ma, va, ka, ra = lst[i]
                    cb, nb, mb, vb, kb, rb = lst[j]
                    if na < 100 or nb < 100:
                        continue
                    comparisons += 1
                    se = math.sqrt((max(ka, 0) + 2.0) / na + (max(kb, 0) + 2.0) / nb)
                    lr = math.log(va / vb)
                    dm = abs(ma - mb)
                    sem = math.sqrt(va / na + vb / nb)
                    if abs(lr) > 8 * se:
                        viols.append(("noise:variance-depends-on-input:%s|%s|%s-vs-%s" % (cfg, grp, ca, cb),
                                      {"class_a": ca, "K_a": na, "sigma_a": math.sqrt(va), "class_b": cb, "K_b": nb, "sigma_b": math.sqrt(vb),
                                       "log_variance_ratio": lr, "limit": 8 * se}, ra))
                    if dm > 8 * sem:
                        viols.append(("noise:mean-depends-on-input:%s|%s|%s-vs-%s" % (cfg, grp, ca, cb),
                                      {"class_a": ca, "mean_a": ma, "class_b": cb, "mean_b": mb, "limit": 8 * sem}, ra))
        short = {k: {kk: (round(vv, 6) if isinstance(vv, float) else vv) for kk, vv in v.items()} for k, v in table.items() if "|gate:" not in k}
        return viols, {"noise_table": short, "independence_comparisons": comparisons, "per_key_expected_mean": {k: round(v, 7) for k, v in keybias.items()},
                       "depth_bound": "chains of depth 200 (in place); unbounded depth is restated as depth <= 200 plus input independence"}

    return vcheck.simple_run("C02", tier, seed, t0, jobs, "exploration", RULE,
                             ["bounds 0.0037 (128-bit) / 0.0047 (80-bit), x1.35 for MUX, taken from the property (spec/default_params.json)",
                              "acceptance regions are 8 estimator standard errors wide, with the measured excess kurtosis in the SE of the variance"],
                             min_evaluations=1000, post=post)
