"""C11: naive, Karatsuba and monomial multiplications are exact in the negacyclic ring."""
import vcheck
from vcheck import Job

RULE = ("cell = (function family, N, coefficient class pair); every oracle decision is a bit-exact comparison of a "
        "library result polynomial with the harness's wrapping-uint32 schoolbook/index arithmetic; "
        "trivial = a zero operand")


def run(tier, seed, t0):
    thorough = tier == "thorough"
    ns = 16
    jobs = [Job("optim-%d" % i, "drv_c11", "optim", "spqlios-fma",
                ["--seed", seed, "--tier", tier, "--shard", i, "--nshards", ns]) for i in range(ns)]
    # debug build: asserts on (a in range, result != source), different code generation
    nd = 8
    jobs += [Job("debug-%d" % i, "drv_c11", "debug", "nayuki-portable",
                 ["--seed", seed + 1, "--tier", "quick", "--shard", i, "--nshards", nd,
                  "--maxN", 2048 if thorough else 512]) for i in range(nd)]
    # ASan+UBSan: Karatsuba scratch buffers around the cut-off, 2N-1 result buffer
    na = 8
    jobs += [Job("asan-%d" % i, "drv_c11", "asan", "spqlios-fma",
                 ["--seed", seed + 2, "--tier", "quick", "--shard", i, "--nshards", na,
                  "--maxN", 2048 if thorough else 256, "--basisN", 16 if thorough else 8], timeout=900) for i in range(na)]
    # operands shared between threads (const inputs): exactness natively, and any write to a shared operand under TSan
    for i, T in enumerate((4, 16) if thorough else (4,)):
        jobs.append(Job("shared-optim-T%d" % T, "drv_c11", "optim", "spqlios-fma", ["--mode", "shared", "--threads", T, "--iters", 1200 if thorough else 300, "--seed", seed + 3 + i], meta={"leaks": False}))
    # little stack left in the calling context (threads with a 32 KiB stack; 16 KiB is the platform minimum)
    jobs.append(Job("smallstack-optim", "drv_c11", "optim", "spqlios-fma", ["--mode", "smallstack", "--stack_kib", 32, "--maxN", 2048, "--seed", seed + 6], meta={"leaks": False}))
    jobs.append(Job("smallstack-debug", "drv_c11", "debug", "nayuki-portable", ["--mode", "smallstack", "--stack_kib", 48, "--maxN", 1024, "--seed", seed + 6], meta={"leaks": False}))
    jobs.append(Job("threads-optim", "drv_c11", "optim", "spqlios-fma", ["--mode", "threads", "--threads", 10, "--iters", 1500 if thorough else 200, "--maxN", 2048, "--seed", seed + 7], meta={"leaks": False}))
    jobs.append(Job("threads-tsan", "drv_c11", "tsan", "nayuki-portable", ["--mode", "threads", "--threads", 4, "--iters", 30, "--maxN", 256, "--seed", seed + 8], tool="tsan", timeout=1800, meta={"leaks": False}))
    jobs.append(Job("shared-debug", "drv_c11", "debug", "nayuki-portable", ["--mode", "shared", "--threads", 4, "--iters", 120, "--seed", seed + 4]))
    jobs.append(Job("shared-tsan", "drv_c11", "tsan", "nayuki-portable", ["--mode", "shared", "--threads", 3, "--iters", 60, "--seed", seed + 5], tool="tsan", timeout=1800, meta={"leaks": False}))
    return vcheck.simple_run("C11", tier, seed, t0, jobs, "exploration", RULE,
                             ["the torus is Z/2^32, so uint32 wrapping arithmetic in the harness is the exact ring arithmetic",
                              "N ranges over powers of two 1..2048; a over all of [0,2N) (sampled for N>512 in quick tier)"],
                             min_evaluations=1000)
