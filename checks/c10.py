"""C10: FFT products equal the exact negacyclic product within 2 units on every back-end."""
import vbuild
import vcheck
from vcheck import Job

RULE = ("cell = (back-end, build, integer-polynomial class, log2 B, torus class); one process per (back-end, build, class, B); "
        "every oracle decision compares all 1024 coefficients of a library result (MultFFT, AddMulRFFT, SubMulRFFT, raw "
        "ifft*ifft->Mul->fft, T-term AddMul/SubMul with T in {4,32}, ifft->fft round trip, AddTo, Set/AddTorusConstant, Clear) "
        "with the exact uint32 schoolbook product; tolerance 2 units for B <= 2^9, 2*ceil(B/2^9) above, x T for T accumulated terms")

LGB = [0, 6, 9, 15, 20]


def run(tier, seed, t0):
    thorough = tier == "thorough"
    reps = 240 if thorough else 1
    jobs = []
    for fl in ("optim", "debug"):
        for be in vbuild.BACKENDS:
            for icls in range(8):
                for lgB in LGB + ([25] if icls in (0, 3) else []):      # beyond 2^24 (values that need more than 24 significant bits): classes whose exact product stays far below 2^63
                    r = reps if fl == "optim" else max(1, reps // 4)
                    jobs.append(Job("%s-%s-c%d-b%d" % (fl, be, icls, lgB), "drv_c10", fl, be,
                                    ["--seed", seed, "--icls", icls, "--lgB", lgB, "--reps", r, "--tag", "%s-%s" % (fl, be),
                                     "--heapphase", (-1, 0, 16, 100)[(icls + lgB + seed) % 4]],
                                    timeout=1800))

    for i, j in enumerate(jobs):      # environment: sticky floating-point exception flags left raised by unrelated earlier code
        if i % 3 == 1:
            j.env = dict(j.env, VH_FPFLAGS="1")

    def post(results, agg):
        worst = {}
        for r in results:
            for e in r.by_type("stat"):
                s = e["stat"]
                if s.get("kind") == "worst-error":
                    k = "%s/%s/B=2^%d" % (r.job.flavor, r.job.backend, s["log2B"])
                    w = worst.setdefault(k, {})
                    for op, v in s["max_abs_error_units"].items():
                        w[op] = max(w.get(op, 0), v)
        # prefix the cells with back-end/build so distinct_nontrivial counts the real grid
        cells = {}
        for r in results:
            for e in r.by_type("cells"):
                for c, n in e["cells"].items():
                    cells["%s:%s:%s" % (r.job.flavor, r.job.backend, c)] = n
        agg["cells"] = cells
        return [], {"worst_error_units_by_config": worst}

    return vcheck.simple_run("C10", tier, seed, t0, jobs, "exploration", RULE,
                             ["exact product computed by the harness in Z/2^32 (uint32 schoolbook)",
                              "N = 1024, the only degree the five back-ends support"],
                             min_evaluations=2000, post=post)
