"""C08: key switching preserves the phase up to a bounded, unbiased error."""
import vcheck
from vcheck import Job

RULE = ("cell = (digit layout (t,basebit), n_in, n_out, value population, entry point). Exact part: harness-built noiseless "
        "key-switching key; for every value a of one mask coefficient: key bit 0 => phase_out == b; key bit 1 => the removed "
        "amount b - phase_out is a multiple of 2^(32-t*basebit) within 2^(31-t*basebit) of a (round to nearest, ties either "
        "way); exhaustive sum gives the mean. Noisy part: real lweCreateKeySwitchKey key, >= 1e5 samples, mean/variance "
        "against the exact noise of the actual rows (8 SE) and against the analytic formula")

LAYOUTS = [(8, 2), (15, 2), (16, 1), (31, 1), (5, 6), (3, 10), (2, 15), (10, 3), (7, 4), (1, 1)]
NOUTS = [1, 3, 8, 9]
WIDE = [(1, 17), (1, 20), (1, 18)]


def run(tier, seed, t0):
    thorough = tier == "thorough"
    jobs = []
    for (t, bb) in LAYOUTS:
        # exhaustive / large sweep on n_out = 1
        lg = 32 if thorough else 24
        ns = 16 if thorough else 2
        for i in range(ns):
            jobs.append(Job("exact-t%d-bb%d-no1-%d" % (t, bb, i), "drv_c08", "optim", "spqlios-fma",
                            ["--mode", "exact", "--t", t, "--basebit", bb, "--n_out", 1, "--log2count", lg,
                             "--shard", i, "--nshards", ns, "--seed", seed], timeout=7200,
                            meta={"t": t, "bb": bb, "lg": lg}))
        for no in NOUTS[1:]:
            lg2 = 26 if thorough else 20
            jobs.append(Job("exact-t%d-bb%d-no%d" % (t, bb, no), "drv_c08", "optim", "spqlios-fma",
                            ["--mode", "exact", "--t", t, "--basebit", bb, "--n_out", no, "--log2count", lg2, "--seed", seed] +
                            (["--translate"] if no == 9 else []), timeout=3600))
        for (ni, no) in ((1, 1), (5, 3), (20, 7), (64, 17)):
            jobs.append(Job("multi-t%d-bb%d-%d-%d" % (t, bb, ni, no), "drv_c08", "optim", "spqlios-fma",
                            ["--mode", "multi", "--t", t, "--basebit", bb, "--n_in", ni, "--n_out", no,
                             "--reps", 4000 if thorough else 1000, "--seed", seed]))
    # one wide digit (basebit > 16, hence t = 1): the table has 2^basebit rows per coefficient, so small dimensions only
    for (t, bb) in WIDE:
        for i in range(2):
            jobs.append(Job("exact-wide-t%d-bb%d-no1-%d" % (t, bb, i), "drv_c08", "optim" if i == 0 else "debug", "spqlios-fma" if i == 0 else "nayuki-portable",
                            ["--mode", "exact", "--t", t, "--basebit", bb, "--n_out", 1, "--log2count", (28 if thorough else 22) if i == 0 else 20,
                             "--shard", 0, "--nshards", 1, "--seed", seed + i], timeout=7200))
        for (ni, no) in ((1, 3), (5, 3)):
            jobs.append(Job("multi-wide-t%d-bb%d-%d-%d" % (t, bb, ni, no), "drv_c08", "optim", "spqlios-fma",
                            ["--mode", "multi", "--t", t, "--basebit", bb, "--n_in", ni, "--n_out", no, "--reps", 2000 if thorough else 500, "--seed", seed], weight=2))
    # long decompositions / large source dimensions (n_in * t far beyond the default 1024 x 8)
    for (t, bb, ni, no) in [(31, 1, 1024, 3), (17, 1, 1024, 2), (9, 2, 2048, 5), (8, 2, 4096, 3), (10, 3, 3000, 2), (16, 1, 2049, 1), (8, 2, 2048, 9), (3, 10, 8192, 2)]:
        jobs.append(Job("multi-large-t%d-bb%d-%d-%d" % (t, bb, ni, no), "drv_c08", "optim", "spqlios-fma",
                        ["--mode", "multi", "--t", t, "--basebit", bb, "--n_in", ni, "--n_out", no,
                         "--reps", 600 if thorough else 150, "--seed", seed], timeout=3600))
    # keys that are elements of a key array (array allocator), neighbours filled before and after
    for e, (t, bb, ni, no) in enumerate([(8, 2, 40, 24), (5, 3, 64, 17), (8, 2, 1, 1), (2, 8, 33, 5), (1, 1, 7, 3), (8, 2, 1024, 9)]):
        for el in ((0, 1, 2) if e < 2 or thorough else (e % 2,)):
            jobs.append(Job("multi-array-el%d-t%d-bb%d-%d-%d" % (el, t, bb, ni, no), "drv_c08", "optim", "spqlios-fma",
                            ["--mode", "multi", "--t", t, "--basebit", bb, "--n_in", ni, "--n_out", no, "--arrayelement", el,
                             "--reps", 400 if thorough else 100, "--seed", seed + el]))
    jobs.append(Job("asan-multi-array", "drv_c08", "asan", "spqlios-fma",
                    ["--mode", "multi", "--t", 4, "--basebit", 3, "--n_in", 9, "--n_out", 5, "--arrayelement", 1, "--reps", 20, "--seed", seed], timeout=1200))
    # several threads at once, each with its own key (decomposition, dimensions); natively and under TSan
    jobs.append(Job("threads-optim", "drv_c08", "optim", "spqlios-fma", ["--mode", "threads", "--threads", 12, "--iters", 20000 if thorough else 3000, "--seed", seed + 6], timeout=3600))
    jobs.append(Job("threads-debug", "drv_c08", "debug", "nayuki-portable", ["--mode", "threads", "--threads", 8, "--iters", 1500, "--seed", seed + 7], timeout=3600))
    jobs.append(Job("threads-tsan", "drv_c08", "tsan", "nayuki-portable", ["--mode", "threads", "--threads", 4, "--iters", 300, "--seed", seed + 8], tool="tsan", timeout=3600, meta={"leaks": False}))
    # debug (scalar lweSubTo) on a subset
    for (t, bb) in [(8, 2), (2, 15), (31, 1), (1, 1)]:
        for no in (1, 9):
            jobs.append(Job("debug-exact-t%d-bb%d-no%d" % (t, bb, no), "drv_c08", "debug", "nayuki-portable",
                            ["--mode", "exact", "--t", t, "--basebit", bb, "--n_out", no, "--log2count", 20, "--seed", seed + 1]))
    K = 400000 if thorough else 100000
    for (t, bb, ni, no, la) in [(8, 2, 256, 16, -20), (8, 2, 128, 5, -15), (4, 4, 256, 9, -22), (2, 8, 512, 32, -25),
                                (8, 2, 1024, 500 if thorough else 64, -16)]:
        jobs.append(Job("noisy-t%d-bb%d-%d-%d" % (t, bb, ni, no), "drv_c08", "optim", "spqlios-fma",
                        ["--mode", "noisy", "--t", t, "--basebit", bb, "--n_in", ni, "--n_out", no,
                         "--alpha", 2.0 ** la, "--K", K, "--seed", seed], timeout=3600))
    # keys made by the library's own generator with a noise parameter far below the torus resolution: every row must carry
    # exactly its message, and the error of a switch is the rounding alone; every layout of the sweep, odd dimensions
    for (t, bb) in LAYOUTS + [(30, 1), (6, 5), (4, 7)]:
        ni, no = (37, 5) if bb <= 4 else (9, 3)
        if t * bb < 6:
            ni = 1      # the sum of the rounding errors must stay below half the torus for the statistics to be meaningful
        jobs.append(Job("generated-noiseless-t%d-bb%d" % (t, bb), "drv_c08", "optim" if (t + bb) % 2 else "debug", "spqlios-fma" if (t + bb) % 2 else "nayuki-portable",
                        ["--mode", "noisy", "--t", t, "--basebit", bb, "--n_in", ni, "--n_out", no,
                         "--alpha", 2.0 ** -45, "--K", 40000 if thorough else 10000, "--seed", seed + 11], timeout=3600))
    jobs.append(Job("memcheck-exact", "drv_c08", "vg", "spqlios-fma",
                    ["--mode", "multi", "--t", 8, "--basebit", 2, "--n_in", 5, "--n_out", 3, "--reps", 50, "--seed", seed],
                    tool="memcheck", timeout=1200))

    for i, j in enumerate(jobs):      # process history: every other native job uses another decomposition first
        if j.tool is None and i % 2 == 1:
            j.args = j.args + ["--prelude", "1"]

    def post(results, agg):
        viols = []
        # exhaustive mean of a - R(a) per layout must be <= 1 unit in magnitude ("zero on average")
        acc = {}
        for r in results:
            for e in r.by_type("stat"):
                s = e["stat"]
                if s.get("kind") == "exact-sweep" and s.get("n_out") == 1 and r.job.flavor == "optim":
                    k = (s["t"], s["basebit"])
                    a = acc.setdefault(k, [0, 0, r])
                    a[0] += s["sum_err"]
                    a[1] += s["count"]
        means = {}
        for k, (se, c, r) in acc.items():
            if c:
                m = se / c
                means["t%d.bb%d" % k] = m
                # stratified sampling: allow 8 standard errors of the uniform rounding error as well
                unit = 2.0 ** (32 - k[0] * k[1])
                tol = 1.0 + (0 if thorough else 8 * unit / (12 ** 0.5) / (c ** 0.5))
                if abs(m) > tol:
                    viols.append(("ks-exact:mean-bias:t%d.bb%d" % k, {"mean_err_units": m, "count": c, "tolerance": tol}, r))
        return viols, {"exact_mean_err_units": means, "exhaustive": bool(thorough)}

    return vcheck.simple_run("C08", tier, seed, t0, jobs, "exploration", RULE,
                             ["noiseless key-switching rows are written by the harness through the public struct fields",
                              "row noise of the real key is measured exactly with both secret keys by the harness"],
                             min_evaluations=100000, post=post)
