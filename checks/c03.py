"""C03: decryption inverts encryption for LWE, TLWE, TGSW and gate ciphertexts."""
import vbuild
import vcheck
from vcheck import Job

RULE = ("cell = (scheme, dimensions, Msize, noise class, back-end). Every message of the message space when Msize <= 64, else "
        "{0,1,M/2-1,M/2,M/2+1,M-1} + random ones; noise classes tiny / 2^-30 / log-uniform / the decryptable maximum 1/(20 Msize) "
        "(10 sigma margin; TGSW: 1/(20 Bg) because the row noise is multiplied by the digit Bg/Msize). Oracle: exact equality of "
        "the decrypted message with the encoded one (LWE: also modSwitchFromTorus32(phase) == m); TLWE/TGSW polynomial messages "
        "coefficient by coefficient; noiseless trivial samples under several unrelated random keys; gate API both default sets")

TGSW = [(2, 10), (3, 7), (4, 8), (8, 4)]


def run(tier, seed, t0):
    thorough = tier == "thorough"
    jobs = [Job("lwe", "drv_c03", "optim", "spqlios-fma", ["--part", "lwe", "--tier", tier, "--seed", seed], timeout=3600),
            Job("lwe-debug", "drv_c03", "debug", "nayuki-portable", ["--part", "lwe", "--tier", "quick", "--seed", seed + 1], timeout=3600)]
    for be in vbuild.BACKENDS:
        for k in (1, 2):
            if not thorough and k == 2 and be not in ("spqlios-fma", "nayuki-portable"):
                continue
            jobs.append(Job("tlwe-%s-k%d" % (be, k), "drv_c03", "optim", be, ["--part", "tlwe", "--k", k, "--tier", tier, "--seed", seed], timeout=3600))
        for (l, bg) in TGSW:
            for k in ((1, 2) if thorough or be == "spqlios-fma" else (1,)):
                jobs.append(Job("tgsw-%s-k%d-l%d-bg%d" % (be, k, l, bg), "drv_c03", "optim", be,
                                ["--part", "tgsw", "--k", k, "--l", l, "--Bgbit", bg, "--tier", tier, "--seed", seed], timeout=3600))
    # more mask polynomials than any default or unit test uses (k = 3, 4, 5): TLWE and TGSW, two back-ends
    for k in (3, 4, 5):
        for be in (vbuild.BACKENDS if thorough else ["spqlios-fma", "nayuki-portable"]):
            jobs.append(Job("tlwe-%s-k%d" % (be, k), "drv_c03", "optim", be, ["--part", "tlwe", "--k", k, "--tier", "quick", "--seed", seed + k], timeout=3600))
        jobs.append(Job("tgsw-k%d-l2-bg8" % k, "drv_c03", "optim" if k != 4 else "debug", "spqlios-fma" if k != 4 else "nayuki-portable",
                        ["--part", "tgsw", "--k", k, "--l", 2, "--Bgbit", 8, "--tier", "quick", "--seed", seed + k], timeout=3600))
    jobs.append(Job("tlwe-debug", "drv_c03", "debug", "spqlios-fma", ["--part", "tlwe", "--k", 1, "--tier", "quick", "--seed", seed + 1], timeout=3600))
    jobs.append(Job("tgsw-debug", "drv_c03", "debug", "nayuki-avx", ["--part", "tgsw", "--k", 1, "--l", 3, "--Bgbit", 7, "--tier", "quick", "--seed", seed + 1], timeout=3600))
    for be in (vbuild.BACKENDS if thorough else ["spqlios-fma"]):
        jobs.append(Job("gate-%s" % be, "drv_c03", "optim", be, ["--part", "gate", "--tier", tier, "--seed", seed], timeout=3600))

    def post(results, agg):
        cells = {}
        for r in results:
            for e in r.by_type("cells"):
                for c, n in e["cells"].items():
                    cells["%s:%s:%s" % (r.job.flavor, r.job.backend, c)] = n
        agg["cells"] = cells
        return [], {}

    return vcheck.simple_run("C03", tier, seed, t0, jobs, "exploration", RULE,
                             ["noise levels satisfy Msize*alpha <= 1/20, so a decoding failure of correct code has probability < 2e-23 per sample",
                              "TLWE/TGSW: N = 1024 (the only degree of the FFT back-ends), k in {1,2} for the full workload, k in {3,4,5} for the quick workload"],
                             min_evaluations=5000, post=post)
