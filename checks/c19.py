"""C19: default parameter selection is monotone and matches the documented sets."""
import json
import math
import os
import re
import time

import vbuild
import vcheck
from vcheck import Job

RULE = ("cell = one requested lambda (every integer in [-5,300] plus INT32_MIN/MAX and a few others), per build and per process "
        "history (none; near-default custom sets imported through tfhe_io first; the other level requested first; a custom key set made, exported and re-imported first; earlier requests that ran out of memory at their k-th allocation and were caught); the "
        "observation is the termination status of a forked child and, when it returns, every field of the returned set; "
        "oracle: abort outside 1..128, pinned table equality (80-bit for 1..80, 128-bit for 81..128), README cross-read, "
        "security(returned) >= lambda, structural constraints recomputed independently, >= 12 sigma decoding margin")


def analytic(f):
    """average-case noise formulas evaluated on the returned fields (variances in torus^2)"""
    n, N, k, l, Bgbit = f["n"], f["N"], f["k"], f["l"], f["Bgbit"]
    t, bb = f["ks_t"], f["ks_basebit"]
    Bg = 2.0 ** Bgbit
    v_br = n * (k + 1) * l * N * (Bg * Bg / 12.0) * f["tlwe_alpha_min"] ** 2 \
        + n * (1 + k * N / 2.0) * (2.0 ** (-2 * l * Bgbit)) / 12.0
    base = 2.0 ** bb
    v_ks = k * N * t * (1 - 1 / base) * f["lwe_alpha_min"] ** 2 + (k * N / 2.0) * (2.0 ** (-2 * t * bb)) / 12.0
    v_ms = (n / 2.0 + 1) * (1.0 / (2 * N)) ** 2 / 12.0       # modulus switch to 2N of the next gate's input
    return v_br, v_ks, v_ms


def margins(f):
    v_br, v_ks, v_ms = analytic(f)
    v_gate = v_br + v_ks
    v_mux = 2 * v_br + v_ks
    m = {
        "and_type(fresh/bootstrapped inputs)": 0.125 / math.sqrt(2 * v_gate + v_ms),
        "xor_type": 0.25 / math.sqrt(8 * v_gate + v_ms),
        "and_type(mux outputs)": 0.125 / math.sqrt(2 * v_mux + v_ms),
        "xor_type(mux outputs)": 0.25 / math.sqrt(8 * v_mux + v_ms),
        "fresh_encryption_and": 0.125 / math.sqrt(2 * f["lwe_alpha_min"] ** 2 + v_ms),
    }
    return m, math.sqrt(v_gate), math.sqrt(v_mux)


def run(tier, seed, t0):
    spec = json.load(open(os.path.join(vbuild.VERIF, "spec", "default_params.json")))
    jobs = [Job("optim", "drv_c19", "optim", "spqlios-fma", []),
            Job("debug", "drv_c19", "debug", "nayuki-portable", []),
            Job("optim-fftw", "drv_c19", "optim", "fftw", [])]
    # histories: what the process did before the request (imports of near-default custom sets, other requests, key sets)
    jobs.append(Job("optim-history9", "drv_c19", "optim", "fftw", ["--history", 9, "--lo", -2, "--hi", 140]))      # garbage collector released between requests
    for h in (6, 7, 8):      # signal state of the application: SIGABRT blocked, ignored, or caught by a handler that returns
        jobs.append(Job("optim-history%d" % h, "drv_c19", "optim", "nayuki-portable" if h == 7 else "spqlios-fma", ["--history", h, "--lo", -20, "--hi", 160]))
    for h in (1, 2, 3, 4, 5):      # 5: earlier requests of the process ran out of memory at their k-th allocation (k = 1..12), caught by the caller
        jobs.append(Job("optim-history%d" % h, "drv_c19", "optim", "spqlios-fma", ["--history", h, "--lo", -2, "--hi", 140]))
    jobs.append(Job("debug-history1", "drv_c19", "debug", "nayuki-portable", ["--history", 1, "--lo", 70, "--hi", 135]))
    results = vcheck.run_jobs(jobs)
    viols, inconclusive = vcheck.collect_violations(results)
    agg = vcheck.aggregate(results)
    # README cross-read (documentation drift)
    readme = open(os.path.join(vbuild.REPO, "README.md"), errors="replace").read()
    doc = {}
    m = re.search(r"Key-Switching key \(LWE\)\s*\|\s*(\d+)\s*\|\s*\$2\^\{(-?\d+)\}\$", readme)
    if m:
        doc["n"], doc["lwe_alpha_min"] = int(m.group(1)), 2.0 ** int(m.group(2))
    m = re.search(r"Bootstrapping key \(Ring-LWE\)\s*\|\s*(\d+)\s*\|\s*\$2\^\{(-?\d+)\}\$", readme)
    if m:
        doc["N"], doc["tlwe_alpha_min"] = int(m.group(1)), 2.0 ** int(m.group(2))
    if len(doc) != 4:
        inconclusive.append("could not parse the parameter table of README.md")
    decisions = 0
    samples = []
    margin_tab = {}
    for r in results:
        obs = r.by_type("lambda")
        if len(obs) < (300 if "history" not in r.job.name else 60):
            inconclusive.append("job %s observed only %d lambdas" % (r.job.name, len(obs)))
        for o in obs:
            lam = o["lambda"]
            decisions += 1
            key = None
            if lam <= 0 or lam > 128:
                if not (o["status"] == "signal" and o.get("signal") == 6):
                    key = "select:not-rejected"
                    det = {"lambda": lam, "observed": {k: o.get(k) for k in ("status", "signal", "code")}, "fields": o.get("fields")}
            else:
                want = "80" if lam <= 80 else "128"
                if o["status"] != "returned":
                    key, det = "select:valid-lambda-terminated", {"lambda": lam, "observed": o}
                else:
                    f = o["fields"]
                    tab = spec[want]
                    bad = {k: (f.get(k), v) for k, v in tab.items() if f.get(k) != v}
                    if bad:
                        # weaker than requested?
                        other = "128" if want == "80" else "80"
                        is_other = all(f.get(k) == v for k, v in spec[other].items())
                        key = "select:weaker-set" if (is_other and want == "128") else "select:table-mismatch:" + want
                        det = {"lambda": lam, "expected_set": want, "mismatch(got,want)": bad}
                    else:
                        # structural constraints, recomputed independently
                        sb = []
                        N, k, l, Bgbit = f["N"], f["k"], f["l"], f["Bgbit"]
                        if N != 1024 or (N & (N - 1)):
                            sb.append("N not a power of two supported by the FFT back-ends (1024)")
                        if l * Bgbit > 32:
                            sb.append("l*Bgbit > 32")
                        if f["ks_t"] * f["ks_basebit"] > 31:
                            sb.append("t*basebit > 31")
                        if f["extracted_n"] != k * N:
                            sb.append("extracted n != k*N")
                        if f["Bg"] != 1 << Bgbit or f["halfBg"] != (1 << Bgbit) // 2 or f["maskMod"] != (1 << Bgbit) - 1:
                            sb.append("Bg/halfBg/maskMod")
                        if f["kpl"] != (k + 1) * l:
                            sb.append("kpl")
                        off = sum(((1 << Bgbit) // 2) << (32 - (i + 1) * Bgbit) for i in range(l)) & 0xFFFFFFFF
                        if f["offset"] != off:
                            sb.append("offset %d != %d" % (f["offset"], off))
                        if f["h"] != [1 << (32 - (i + 1) * Bgbit) for i in range(l)]:
                            sb.append("h[]")
                        if f["extracted_alpha_min"] != f["tlwe_alpha_min"] or f["extracted_alpha_max"] != f["tlwe_alpha_max"]:
                            sb.append("extracted alphas")
                        if want == "128" and len(doc) == 4:
                            for kk, vv in doc.items():
                                if f[kk] != vv:
                                    sb.append("README documents %s=%r, library returns %r" % (kk, vv, f[kk]))
                        mg, s_gate, s_mux = margins(f)
                        margin_tab[want] = {"margins_sigma": mg, "analytic_gate_sigma": s_gate, "analytic_mux_sigma": s_mux}
                        for g, v in mg.items():
                            if v < 12.0:
                                sb.append("decoding margin %s = %.2f sigma < 12" % (g, v))
                        bnd = spec["noise_bound"][want]
                        if s_gate > bnd or s_mux > bnd * spec["noise_bound"]["mux_factor"]:
                            sb.append("analytic output sigma %.5f / %.5f above the stated bound %.4f" % (s_gate, s_mux, bnd))
                        if sb:
                            key, det = "select:structure:" + want, {"lambda": lam, "problems": sb}
                        if len(samples) < 4 and lam in (1, 80, 81, 128):
                            samples.append({"lambda": lam, "job": r.job.name, "set": want, "fields": f})
            if o["status"] != "returned" and len(samples) < 8 and lam in (0, 129, -2147483648, 2147483647):
                samples.append({"lambda": lam, "job": r.job.name, "observed": {k: o.get(k) for k in ("status", "signal")}})
            if key:
                viols.append((key, det, r))
    agg["evaluations"] = decisions
    agg["samples"] = samples
    cov = vcheck.generic_coverage(agg, RULE, {"exhaustive": True, "margins": margin_tab, "readme_values": doc})
    return vcheck.finish("C19", tier, seed, "exploration", viols, inconclusive, cov,
                         ["security level of a returned set is identified by equality with the pinned 80-bit / 128-bit tables",
                          "decoding margins use the average-case noise formulas (uniform digits) on the returned fields"], t0)
