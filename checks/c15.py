"""C15: evaluation leaves inputs/keys untouched, accepts aliased output, uses no RNG."""
import vbuild
import vcheck
from vcheck import Job

RULE = ("cell = (build/back-end/parameter set, evaluation function) and (.., gate, aliasing pattern). Around every call: byte "
        "snapshots of the input ciphertexts, test polynomial and exponent vector; 64-bit hashes of all key-switching rows (both "
        "copies), bootstrapping rows, their FFT image and the parameter structs; the textual state of the library generator. "
        "Aliasing: result = a, = b, = c, a = b, b = c, all the same object must be bit-identical to the same call on disjoint "
        "copies and decrypt to the truth table; repeated calls are bit-identical")


def run(tier, seed, t0):
    thorough = tier == "thorough"
    jobs = []
    reps = 8 if thorough else 2
    for be in vbuild.BACKENDS:
        jobs.append(Job("small-%s" % be, "drv_c15", "optim", be, ["--seed", seed, "--lambda", 0, "--reps", reps, "--lreps", reps], timeout=3600))
    jobs.append(Job("small-k2-spqlios-fma", "drv_c15", "optim", "spqlios-fma", ["--seed", seed, "--lambda", 0, "--k", 2, "--l", 2, "--Bgbit", 10, "--reps", reps, "--lreps", reps], timeout=3600))
    jobs.append(Job("small-k2-nayuki-portable", "drv_c15", "optim", "nayuki-portable", ["--seed", seed, "--lambda", 0, "--k", 2, "--l", 2, "--Bgbit", 10, "--reps", 1, "--lreps", 1], timeout=3600))
    for be in (vbuild.BACKENDS if thorough else ["spqlios-fma", "nayuki-portable"]):
        jobs.append(Job("debug-%s" % be, "drv_c15", "debug", be, ["--seed", seed + 1, "--lambda", 0, "--reps", 1, "--lreps", 1], timeout=3600))
    defaults = [(be, lam) for be in vbuild.BACKENDS for lam in (80, 128)] if thorough else [("spqlios-fma", 128), ("spqlios-avx", 80)]
    for be, lam in defaults:
        jobs.append(Job("default%d-%s" % (lam, be), "drv_c15", "optim", be, ["--seed", seed, "--lambda", lam, "--reps", 1, "--lreps", 1], timeout=3600, weight=2))
    # the server role: a process that only imports and evaluates (generator never seeded or used), one first entry point per run
    firsts = list(range(14)) if thorough else [0, 3, 10, 6, 11]
    for i, g in enumerate(firsts):
        be = vbuild.BACKENDS[i % 5]
        jobs.append(Job("server-first%d-%s" % (g, be), "drv_c15", "optim" if i % 3 else "debug", be, ["--mode", "server", "--first", g, "--seed", seed + i], timeout=3600))
    jobs.append(Job("server-default128", "drv_c15", "optim", "spqlios-fma", ["--mode", "server", "--first", 0, "--lambda", 128, "--seed", seed], timeout=3600, weight=2))
    for i, j in enumerate(jobs):      # process history: every other native job first generates and uses a custom parameter set
        if j.tool is None and j.driver == "drv_c15" and i % 2 == 0:
            j.args = j.args + ["--prelude", "1"]

    return vcheck.simple_run("C15", tier, seed, t0, jobs, "exploration", RULE,
                             ["the FFT image of the bootstrapping key is viewed as N doubles per polynomial on every back-end",
                              "small parameter sets (n = 12, N = 1024) for volume, the default sets once per listed back-end"],
                             min_evaluations=500)
