"""C09: external product multiplies messages; blind rotation rotates by the secret exponent."""
import vbuild
import vcheck
from vcheck import Job

RULE = ("cell = (back-end/build, k, (l,Bgbit), operation, message class, TLWE class, row kind) resp. (.., n, exponent class). "
        "Oracle: exact TLWE phases (harness negacyclic arithmetic with the secret ring key) of input and result; "
        "phase(result) - m*phase(c) within the deterministic bound (1+kN)(|m|_1 2^(32-l Bgbit) + 2(k+1)l ceil((Bg/2)/512)) for "
        "harness-built noiseless rows, + 8 sigma(worst-case digits) for library-made noisy rows; coefficient- and FFT-domain "
        "variants against each other; FFT image converts back within 1 unit; blind rotation: phase(out) = X^(sum bara_i s_i) phase(in) "
        "within active-CMux-count times that bound")

LAYOUTS = [(2, 10), (3, 7), (3, 10), (4, 8), (8, 4), (16, 2), (2, 14), (2, 16), (1, 16)]


def job(fl, be, k, l, bg, seed, reps, rreps, n="1,4,16", alpha=2.0 ** -25, timeout=1800):
    return Job("%s-%s-k%d-l%d-bg%d" % (fl, be, k, l, bg), "drv_c09", fl, be,
               ["--seed", seed, "--k", k, "--l", l, "--Bgbit", bg, "--reps", reps, "--rreps", rreps, "--n", n, "--alpha", alpha, "--nreps", 24 if reps <= 30 else 240],
               timeout=timeout)


def run(tier, seed, t0):
    thorough = tier == "thorough"
    jobs = []
    if not thorough:
        for be in ("spqlios-fma", "nayuki-portable"):
            for (l, bg) in LAYOUTS:
                jobs.append(job("optim", be, 1, l, bg, seed, 30, 10))
            jobs.append(job("optim", be, 2, 2, 10, seed, 15, 10, n="1,4"))
            jobs.append(job("optim", be, 2, 3, 7, seed, 15, 10, n="1,4"))
        jobs.append(job("optim", "spqlios-avx", 1, 3, 7, seed, 30, 10))
        jobs.append(job("optim", "nayuki-avx", 1, 2, 10, seed, 30, 10))
        jobs.append(job("optim", "fftw", 1, 4, 8, seed, 30, 10))
        jobs.append(job("optim", "fftw", 2, 3, 10, seed, 15, 10, n="1,4"))
        jobs.append(job("optim", "spqlios-fma", 1, 3, 7, seed + 1, 10, 10, n="64"))
        jobs.append(job("debug", "spqlios-fma", 1, 3, 7, seed, 10, 5, n="1,4"))
        jobs.append(job("debug", "nayuki-portable", 1, 2, 10, seed, 5, 5, n="2"))
    else:
        for be in vbuild.BACKENDS:
            for (l, bg) in LAYOUTS:
                for k in (1, 2):
                    jobs.append(job("optim", be, k, l, bg, seed, 90, 30, n="1,4,16" if k == 1 else "1,4"))
            jobs.append(job("optim", be, 1, 3, 7, seed + 1, 15, 30, n="64"))
            jobs.append(job("optim", be, 1, 2, 10, seed + 1, 15, 30, n="64"))
            jobs.append(job("debug", be, 1, 3, 7, seed, 15, 10, n="1,4", timeout=3600))
            jobs.append(job("debug", be, 2, 2, 10, seed, 10, 5, n="2", timeout=3600))

    for i, j in enumerate(jobs):      # environment: sticky floating-point exception flags left raised by unrelated earlier code
        if i % 3 == 1:
            j.env = dict(j.env, VH_FPFLAGS="1")
    for i, j in enumerate(jobs):      # process history: every other job uses a key of another layout first
        if i % 2 == 0:
            j.args = j.args + ["--prelude", "1"]

    def post(results, agg):
        tab = {}
        nviol = []
        ntab = {}
        for r in results:
            for e in r.by_type("stat"):
                s = e["stat"]
                if s.get("kind") == "extprod-noise":
                    # coefficients of one product share their digits: count a product as N/8 independent squares (conservative)
                    neff = max(1.0, s["coefficients"] / 8.0)
                    lim = 1.0 + 8.0 * (2.0 / neff) ** 0.5
                    for dom in ("coef", "fft"):
                        ratio = s["mean_square_over_bound_%s_domain" % dom]
                        ntab["%s/%s/%s/%s" % (r.job.flavor, r.job.backend, s["config"], dom)] = round(ratio, 4)
                        if ratio > lim:
                            nviol.append(("extprod:noise-above-analytic-bound:%s" % dom, {"config": s["config"], "mean_square_over_bound": ratio, "limit": lim, "products": s["products"]}, r))
        for r in results:
            for e in r.by_type("stat"):
                s = e["stat"]
                if s.get("kind") == "extprod":
                    tab["%s/%s/%s" % (r.job.flavor, r.job.backend, s["config"])] = round(s["worst_error_over_bound"], 4)
        cells = {}
        for r in results:
            for e in r.by_type("cells"):
                for c, n in e["cells"].items():
                    cells["%s:%s:%s" % (r.job.flavor, r.job.backend, c)] = n
        agg["cells"] = cells
        return nviol, {"worst_error_over_bound_by_config": tab, "measured_noise_over_analytic_bound": ntab}

    return vcheck.simple_run("C09", tier, seed, t0, jobs, "exploration", RULE,
                             ["noiseless TGSW rows are built by the harness with exact integer arithmetic through the public struct fields",
                              "noisy rows come from tGswSymEncrypt(Int) with alpha = 2^-25; N = 1024"],
                             min_evaluations=1000, post=post)
