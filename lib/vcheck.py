"""Check runner: builds what a property's plan needs from the current tree, runs the driver jobs
(sharded over the cores, each under a watchdog), collects the JSONL event logs, routes every violation
key through the known-findings file, writes the evidence file and prints the verdict.

exit 0: property held on everything explored (KNOWN-FINDING lines possible)
exit 1: VIOLATION property=<id> replay=<path>
exit 2: harness failure / inconclusive (build error, watchdog twice, monitors observed nothing)
"""
import fnmatch
import importlib
import json
import zlib
import os
import re
import signal
import subprocess
import sys
import tempfile
import threading
import time
from concurrent.futures import ThreadPoolExecutor

sys.path.insert(0, os.path.dirname(os.path.abspath(__file__)))
import vbuild  # noqa: E402

VERIF = vbuild.VERIF
KNOWN_FILE = os.path.join(VERIF, "KNOWN_FINDINGS.txt")
NCPU = int(os.environ.get("VERIF_JOBS", str(os.cpu_count() or 16)))


class Job:
    def __init__(self, name, driver, flavor, backend, args=(), timeout=600, wrapper=(), env=None, weight=1,
                 extra_srcs=(), extra_flags="", extra_ld="", tool=None, allow_rc=(0,), meta=None, exe=None):
        self.name = name
        self.driver = driver
        self.flavor = flavor
        self.backend = backend
        self.args = [str(a) for a in args]
        self.timeout = timeout
        self.wrapper = list(wrapper)
        self.env = dict(env or {})
        self.weight = weight
        self.extra_srcs = tuple(extra_srcs)
        self.extra_flags = extra_flags
        self.extra_ld = extra_ld
        self.tool = tool          # None | "asan" | "tsan" | "memcheck" | "helgrind"
        self.allow_rc = tuple(allow_rc)
        self.meta = meta or {}
        self.exe = exe            # prebuilt path (else built from driver/flavor/backend)


class Result:
    def __init__(self, job):
        self.job = job
        self.rc = None
        self.sig = None
        self.timed_out = False
        self.events = []
        self.stderr_tail = ""
        self.wall = 0.0
        self.cmd = []
        self.tool_reports = []   # list of (key, text)
        self.attempts = 0

    def by_type(self, t):
        return [e for e in self.events if e.get("t") == t]

    @property
    def done(self):
        d = self.by_type("done")
        return d[-1] if d else None


class HarnessFailure(Exception):
    pass


def work_dir():
    d = os.path.join(VERIF, "work")
    os.makedirs(d, exist_ok=True)
    return d


_sem_lock = threading.Condition()
_sem_avail = [NCPU]


def _acquire(w):
    w = min(w, NCPU)
    with _sem_lock:
        while _sem_avail[0] < w:
            _sem_lock.wait()
        _sem_avail[0] -= w
    return w


def _release(w):
    with _sem_lock:
        _sem_avail[0] += w
        _sem_lock.notify_all()


def _tool_env_and_wrapper(job, logbase):
    env = {}
    wrapper = list(job.wrapper)
    if job.tool == "asan" or job.flavor in ("asan", "asand"):
        env["ASAN_OPTIONS"] = ("abort_on_error=0:exitcode=97:detect_leaks=%d:log_path=%s.san:allocator_may_return_null=1:"
                               "handle_segv=0:handle_abort=0:handle_sigbus=0:detect_stack_use_after_return=0" %
                               (1 if job.meta.get("leaks", True) else 0, logbase))
        env["UBSAN_OPTIONS"] = "print_stacktrace=1:halt_on_error=1:exitcode=97:log_path=%s.san" % logbase
        env["LSAN_OPTIONS"] = "exitcode=97:log_path=%s.san" % logbase
    if job.tool == "tsan" or job.flavor == "tsan":
        env["TSAN_OPTIONS"] = "halt_on_error=0:exitcode=96:log_path=%s.san:second_deadlock_stack=1:history_size=4" % logbase
    if job.tool == "memcheck":
        wrapper = ["valgrind", "--tool=memcheck", "--error-exitcode=95", "--leak-check=full",
                   "--errors-for-leak-kinds=definite,indirect", "--show-leak-kinds=definite,indirect",
                   "--num-callers=25", "--track-origins=yes", "--log-file=%s.vg" % logbase, "-q"] + wrapper
    if job.tool == "helgrind":
        wrapper = ["valgrind", "--tool=helgrind", "--error-exitcode=95", "--num-callers=25",
                   "--history-level=approx", "--log-file=%s.vg" % logbase, "-q"] + wrapper
    return env, wrapper


def _lib_frame(text):
    """function name of the first stack frame that lies in the repository's library sources (any report format)"""
    for ln in text.splitlines():
        m = re.match(r"\s*#\d+ (?:0x[0-9a-f]+ in )?(.+?) (/\S+?):\d+", ln)          # ASan / UBSan / TSan frames
        if m and ("/src/libtfhe/" in m.group(2) or "/src/include/" in m.group(2)):
            return re.sub(r"\(.*", "", m.group(1)).strip().replace(" ", "_")
        m = re.match(r"==\d+==\s+(?:at|by) 0x[0-9A-F]+: (.+?) \((\S+?):\d+\)", ln)   # valgrind frames
        if m:
            fn, f = m.group(1), m.group(2)
            if f.startswith(("drv_", "vh", "gates.hpp", "iokinds", "vg_replace", "hg_intercepts", "fftw_shim")):
                continue
            if f.endswith((".cpp", ".c", ".s", ".h", ".hpp")) and not f.startswith(("new_allocator", "stl_", "alloc_traits", "basic_string", "shared_ptr", "std_", "invoke.h", "thread", "unique_ptr", "functional")):
                return re.sub(r"\(.*", "", fn).strip().replace(" ", "_")
    return "unknown"


def _parse_san_text(txt):
    """ASan / UBSan / LSan / TSan report blocks in a text (a log file, or the captured stderr: gcc's libubsan writes its
    reports to stderr whatever log_path says)"""
    reps = []
    if "runtime error:" not in txt and "Sanitizer" not in txt:      # (children's stderr files can be megabytes of library messages)
        return reps
    if len(txt) > 200000:      # keep only the neighbourhood of the report markers (the block regexes are slow on binary noise)
        pieces, pos = [], 0
        for m in re.finditer(r"runtime error:|==ERROR: |WARNING: ThreadSanitizer", txt):
            st = txt.rfind("\n", 0, m.start()) + 1
            if st < pos:
                continue
            pieces.append(txt[st:st + 8000])
            pos = st + 8000
            if len(pieces) >= 300:
                break
        txt = "\n".join(pieces)
    # ASan / UBSan / LSan / TSan blocks
    blocks = re.split(r"(?m)^(?==+\d+==ERROR|WARNING: ThreadSanitizer|.*runtime error:)", txt)
    for blk in blocks:
        m = re.search(r"ERROR: (AddressSanitizer|LeakSanitizer): ([\w-]+)", blk)
        if m:
            kind = m.group(2)
            if m.group(1) == "LeakSanitizer" or kind == "detected":
                # one key per leak stack
                for lm in re.finditer(r"(?s)(Direct|Indirect) leak of (\d+) byte\(s\) in (\d+) object\(s\) allocated from:\n(.*?)(?:\n\n|\Z)", blk):
                    fn = _lib_frame(lm.group(4))
                    reps.append(("lsan:leak:" + fn, lm.group(0)[:1500]))
                continue
            reps.append(("asan:%s:%s" % (kind, _lib_frame(blk)), blk[:3000]))
            continue
        m = re.search(r"WARNING: ThreadSanitizer: ([\w -]+?) \(pid", blk)
        if m:
            kind = m.group(1).strip().replace(" ", "-")
            fns = []
            for part in re.split(r"\n\s*\n", blk):
                if re.search(r"(?m)^\s*(Write|Read|Previous (write|read)|Atomic (write|read)|Previous atomic) of size", part):
                    fns.append(_lib_frame(part))
            fns = sorted(set(fns)) or [_lib_frame(blk)]
            reps.append(("tsan:%s:%s" % (kind, "+".join(fns)), blk[:3000]))
            continue
        m = re.search(r"(\S+:\d+:\d+): runtime error: (.*)", blk)
        if m:
            what = re.sub(r"-?\d+", "N", m.group(2))[:60].strip().replace(" ", "-")
            loc = os.path.basename(m.group(1)).split(":")[0]
            reps.append(("ubsan:%s:%s" % (loc, what), blk[:2000]))
    return reps


def _parse_sanitizer_logs(logbase):
    """returns list of (key, text) for every report block found in <logbase>.san.* / .vg"""
    reps = []
    d = os.path.dirname(logbase)
    b = os.path.basename(logbase)
    for f in sorted(os.listdir(d)):
        if not f.startswith(b + "."):
            continue
        p = os.path.join(d, f)
        try:
            txt = open(p, errors="replace").read()
        except OSError:
            continue
        if ".san" in f:
            reps.extend(_parse_san_text(txt))
        elif f.endswith(".vg") or ".vg" in f:
            blocks = re.split(r"(?m)^==\d+== \n", txt)
            for blk in blocks:
                first = blk.strip().split("\n")[0] if blk.strip() else ""
                first = re.sub(r"^==\d+== ", "", first)
                if not first:
                    continue
                kind = None
                if re.match(r"(Invalid (read|write)|Conditional jump|Use of uninitialised|Syscall param|Invalid free|Mismatched free|Source and destination overlap|Jump to the invalid|Process terminating)", first):
                    if first.startswith("Process terminating"):
                        continue
                    kind = re.sub(r"\s+of size \d+", "", first).strip().replace(" ", "-")[:40]
                    reps.append(("memcheck:%s:%s" % (kind, _lib_frame(blk)), blk[:3000]))
                elif re.search(r"bytes in [\d,]+ blocks are (definitely|indirectly) lost", first):
                    reps.append(("memcheck:leak:%s" % _lib_frame(blk), blk[:3000]))
                elif first.startswith("Possible data race"):
                    parts = blk.split("This conflicts with")
                    fns = sorted(set(_lib_frame(p) for p in parts))
                    reps.append(("helgrind:race:%s" % "+".join(fns), blk[:3000]))
                elif first.startswith(("Thread #", "Lock at", "----")):
                    continue
                elif "lock order" in first or "Exiting thread still holds" in first or "destroy" in first.lower():
                    reps.append(("helgrind:%s:%s" % (first[:30].replace(" ", "-"), _lib_frame(blk)), blk[:3000]))
    return reps


def run_job(job):
    res = Result(job)
    try:
        exe = job.exe or vbuild.build_driver(job.driver, job.flavor, job.backend, job.extra_srcs, job.extra_flags, job.extra_ld)
    except vbuild.BuildError as e:
        res.rc = -999
        res.stderr_tail = str(e)[-3000:]
        res.build_error = True
        return res
    w = _acquire(job.weight)
    try:
        for attempt in (1, 2):
            res.attempts = attempt
            fd, outp = tempfile.mkstemp(prefix="ev-", suffix=".jsonl", dir=work_dir())
            os.close(fd)
            logbase = outp[:-6]
            tenv, wrapper = _tool_env_and_wrapper(job, logbase)
            env = dict(os.environ)
            env.update(tenv)
            env.update(job.env)
            env["VH_BACKEND"] = job.backend
            env["VH_FLAVOR"] = job.flavor
            cmd = wrapper + [exe] + job.args + ["--out", outp]
            res.cmd = cmd
            t0 = time.time()
            p = subprocess.Popen(cmd, stdout=subprocess.PIPE, stderr=subprocess.STDOUT, env=env,
                                 cwd=work_dir(), start_new_session=True)
            try:
                so, _ = p.communicate(timeout=job.timeout)
                res.timed_out = False
            except subprocess.TimeoutExpired:
                try:
                    os.killpg(p.pid, signal.SIGKILL)
                except ProcessLookupError:
                    pass
                so, _ = p.communicate()
                res.timed_out = True
            res.wall = time.time() - t0
            res.rc = p.returncode
            res.sig = -p.returncode if p.returncode is not None and p.returncode < 0 else None
            res.stderr_tail = (so or b"").decode(errors="replace")[-3000:]
            res.events = []
            try:
                with open(outp, errors="replace") as fh:
                    for ln in fh:
                        ln = ln.strip()
                        if not ln:
                            continue
                        try:
                            res.events.append(json.loads(ln))
                        except ValueError:
                            pass
            except OSError:
                pass
            res.tool_reports = _parse_sanitizer_logs(logbase)
            if job.tool in ("asan", "tsan") or job.flavor in ("asan", "asand", "tsan"):
                seen = set(k for k, _ in res.tool_reports)
                for k, t in _parse_san_text((so or b"").decode(errors="replace")):
                    if k not in seen:
                        seen.add(k)
                        res.tool_reports.append((k, t))
            # cleanup
            for f in os.listdir(work_dir()):
                if f.startswith(os.path.basename(logbase)):
                    try:
                        os.unlink(os.path.join(work_dir(), f))
                    except OSError:
                        pass
            if not res.timed_out:
                break
    finally:
        _release(w)
    return res


def run_jobs(jobs, progress=True):
    # build first (serially per distinct exe, the compile itself is parallel), so job timeouts exclude builds
    seen = set()
    for j in jobs:
        k = (j.driver, j.flavor, j.backend)
        if j.exe is None and k not in seen:
            seen.add(k)
            try:
                vbuild.build_driver(j.driver, j.flavor, j.backend, j.extra_srcs, j.extra_flags, j.extra_ld)
            except vbuild.BuildError as e:
                raise HarnessFailure("build failed for %s/%s/%s:\n%s" % (j.driver, j.flavor, j.backend, str(e)[-3000:]))
    # which thread: about half of the native (no tool, optim/debug) jobs run their whole driver on a freshly created thread
    # instead of the process's initial thread (decided by job name and seed, recorded in the job's env so replays reproduce it)
    sd = int(os.environ.get("VERIF_SEED", "1") or 1)
    for j in jobs:
        if j.tool is None and j.flavor in ("optim", "debug") and j.exe is None and "VH_ON_THREAD" not in j.env:
            if (zlib.crc32(j.name.encode()) + sd) % 2 == 0:
                j.env = dict(j.env, VH_ON_THREAD="1")
    with ThreadPoolExecutor(max(1, min(len(jobs), NCPU))) as ex:
        results = list(ex.map(run_job, jobs))
    return results


# ---------------------------------------------------------------------------------- known findings
def load_known():
    known, fixed = [], []
    try:
        for ln in open(KNOWN_FILE):
            ln = ln.strip()
            if not ln or ln.startswith("#"):
                continue
            m = re.match(r"known: property=(\S+) key=(\S+)\s*(.*)", ln)
            if m:
                known.append((m.group(1), m.group(2), m.group(3)))
                continue
            m = re.match(r"fixed: property=(\S+) (\S+) key=(\S+)\s*(.*)", ln)
            if m:
                fixed.append((m.group(1), m.group(3), m.group(2), m.group(4)))
    except FileNotFoundError:
        pass
    return known, fixed


def collect_violations(results, crash_ok=None):
    """returns list of (key, detail dict, result) from driver viol events, tool reports, crashes, bad exits.
    crash_ok(result) -> True when a signal death is an expected observation of that job (e.g. C18/C19 children
    are forked inside the driver, so driver-level crashes are never expected)."""
    viols = []
    inconclusive = []
    for r in results:
        j = r.job
        if getattr(r, "build_error", False):
            raise HarnessFailure("build error in job %s: %s" % (j.name, r.stderr_tail))
        for e in r.by_type("viol"):
            viols.append((e["key"], e.get("detail", {}), r))
        for key, text in r.tool_reports:
            viols.append((key, {"report": text}, r))
        crash = r.by_type("crash")
        if r.timed_out:
            inconclusive.append("job %s timed out twice (%.0fs)" % (j.name, r.wall))
            continue
        if crash or (r.sig is not None):
            if crash_ok and crash_ok(r):
                continue
            c = crash[-1] if crash else {"sig": r.sig, "label": "unknown", "addr": 0}
            label = c.get("label", "unknown")
            viols.append(("crash:%s:sig%s" % (label, c.get("sig")),
                          {"signal": c.get("sig"), "fault_addr": c.get("addr"), "stderr": r.stderr_tail[-1500:]}, r))
            continue
        if r.done is None:
            if r.rc in (95, 96, 97) and r.tool_reports:
                continue  # sanitizer stopped the process; report already routed
            inconclusive.append("job %s ended without a summary (rc=%s): %s" % (j.name, r.rc, r.stderr_tail[-800:]))
            continue
        if r.rc not in j.allow_rc and r.rc not in (95, 96, 97):
            inconclusive.append("job %s exit code %s: %s" % (j.name, r.rc, r.stderr_tail[-800:]))
        elif r.rc in (95, 96, 97) and not r.tool_reports:
            inconclusive.append("job %s: tool exit code %s without a parsed report: %s" % (j.name, r.rc, r.stderr_tail[-800:]))
    return viols, inconclusive


def aggregate(results):
    cells, trivial = {}, {}
    evaluations = 0
    samples = []
    stats = []
    per_job = []
    for r in results:
        for e in r.by_type("cells"):
            for k, v in e["cells"].items():
                cells[k] = cells.get(k, 0) + v
        for e in r.by_type("trivial"):
            for k, v in e["cells"].items():
                trivial[k] = trivial.get(k, 0) + v
        d = r.done
        if d:
            evaluations += d.get("evaluations", 0)
        for e in r.by_type("sample"):
            samples.append(e["case"])
        for e in r.by_type("stat"):
            s = dict(e["stat"])
            s["_job"] = r.job.name
            stats.append(s)
        per_job.append({"job": r.job.name, "flavor": r.job.flavor, "backend": r.job.backend, "tool": r.job.tool,
                        "evaluations": d.get("evaluations", 0) if d else 0, "wall_s": round(r.wall, 2),
                        "tool_reports": len(r.tool_reports), "rc": r.rc})
    return {"cells": cells, "trivial": trivial, "evaluations": evaluations, "samples": samples,
            "stats": stats, "per_job": per_job}


def write_replay(pid, key, detail, result, seed, tier):
    d = os.path.join(VERIF, "replays")
    os.makedirs(d, exist_ok=True)
    safe = re.sub(r"[^A-Za-z0-9_.-]", "_", key)[:80]
    p = os.path.join(d, "%s-%s-%d.json" % (pid, safe, int(time.time() * 1000) % 100000000))
    job = result.job if result is not None else None
    rec = {"property": pid, "key": key, "detail": detail, "seed": seed, "tier": tier,
           "repo": vbuild.REPO}
    if job is not None:
        rec.update({"driver": job.driver, "flavor": job.flavor, "backend": job.backend, "args": job.args,
                    "env": job.env, "tool": job.tool, "job": job.name})
    with open(p, "w") as fh:
        json.dump(rec, fh, indent=1)
    return p


def finish(pid, tier, seed, level, viols, inconclusive, coverage, assumptions, t0, extra=None):
    """route violations through known findings, write evidence, print verdict, return exit code"""
    known, fixed = load_known()
    new_viol = {}
    known_hits = {}
    for key, detail, res in viols:
        matched = None
        for kp, kk, ktxt in known:
            if kp == pid and fnmatch.fnmatchcase(key, kk):
                matched = (kk, ktxt)
                break
        if matched:
            known_hits.setdefault(matched, 0)
            known_hits[matched] += 1
        else:
            new_viol.setdefault(key, (detail, res))
    for (kk, ktxt), n in sorted(known_hits.items()):
        print("KNOWN-FINDING: property=%s key=%s %s (observed %d times in this run)" % (pid, kk, ktxt, n))
    rc = 0
    replays = []
    for key, (detail, res) in sorted(new_viol.items()):
        p = write_replay(pid, key, detail, res, seed, tier)
        replays.append(p)
        print("VIOLATION property=%s replay=%s" % (pid, p))
        print("  key=%s" % key)
        dt = json.dumps(detail)
        print("  detail=%s" % (dt[:1500]))
        rc = 1
    ev = {
        "property_id": pid, "tier": tier, "seed": int(seed), "level": level,
        "coverage": coverage, "assumptions": assumptions, "wall_s": round(time.time() - t0, 2),
        "violations": len(new_viol),
    }
    ev["coverage"]["known_finding_hits"] = {k[0]: n for k, n in known_hits.items()}
    ev["coverage"]["violation_keys"] = sorted(new_viol.keys())
    ev["coverage"]["inconclusive"] = inconclusive
    ev["coverage"]["repo_tree"] = vbuild.treehash()
    if extra:
        ev["coverage"].update(extra)
    os.makedirs(os.path.join(VERIF, "evidence"), exist_ok=True)
    evp = os.environ.get("VERIF_EVIDENCE_DIR", os.path.join(VERIF, "evidence"))
    os.makedirs(evp, exist_ok=True)
    with open(os.path.join(evp, pid + ".json"), "w") as fh:
        json.dump(ev, fh, indent=1, sort_keys=False)
    if rc == 0 and inconclusive:
        print("INCONCLUSIVE property=%s: %s" % (pid, "; ".join(inconclusive)[:2000]))
        rc = 2
    if rc == 0:
        print("OK property=%s tier=%s seed=%s evaluations=%s distinct_nontrivial=%s wall=%.1fs" %
              (pid, tier, seed, coverage.get("evaluations"), coverage.get("distinct_nontrivial"), time.time() - t0))
    return rc


def generic_coverage(agg, rule, extra=None, max_samples=10):
    if not agg["samples"]:
        # never leave the evidence without concrete cases: fall back to a listing of observed cells
        agg["samples"] = [{"cell": k, "evaluations_in_cell": v} for k, v in list(sorted(agg["cells"].items()))[:max_samples]]
    # take samples round-robin over the jobs that produced them rather than the first job's only
    cov = {
        "evaluations": int(agg["evaluations"]),
        "distinct_nontrivial": len(agg["cells"]),
        "rule": rule,
        "samples": agg["samples"][:max_samples],
        "trivial_cells": len(agg["trivial"]),
        "cells_top": dict(sorted(agg["cells"].items())[:60]),
        "jobs": agg["per_job"],
    }
    if agg["stats"]:
        cov["stats"] = agg["stats"][:200]
    if extra:
        cov.update(extra)
    return cov


def main(argv):
    import argparse
    ap = argparse.ArgumentParser()
    ap.add_argument("pid")
    ap.add_argument("--tier", default=os.environ.get("VERIF_TIER", "quick"))
    ap.add_argument("--replay", default=None)
    ap.add_argument("--seed", default=os.environ.get("VERIF_SEED", "1"))
    a = ap.parse_args(argv)
    try:
        seed = int(a.seed)
    except ValueError:
        seed = 1
    pid = a.pid.upper()
    sys.path.insert(0, os.path.join(VERIF, "checks"))
    mod = importlib.import_module(pid.lower())
    t0 = time.time()
    vbuild.prune_old()
    try:
        if a.replay:
            rec = json.load(open(a.replay))
            return mod.replay(rec) if hasattr(mod, "replay") else generic_replay(mod, rec)
        return mod.run(a.tier, seed, t0)
    except HarnessFailure as e:
        print("HARNESS-FAILURE property=%s: %s" % (pid, e))
        return 2
    except vbuild.BuildError as e:
        print("HARNESS-FAILURE property=%s: build: %s" % (pid, e))
        return 2


def generic_replay(mod, rec):
    """re-run the recorded job and print what it reports"""
    if "driver" not in rec:
        print("replay record has no job; re-run the check with VERIF_SEED=%s" % rec.get("seed"))
        return 2
    job = Job(rec.get("job", "replay"), rec["driver"], rec["flavor"], rec["backend"], rec["args"],
              env=rec.get("env"), tool=rec.get("tool"))
    if hasattr(mod, "fix_job"):
        mod.fix_job(job)
    r = run_job(job)
    viols, inc = collect_violations([r])
    hit = [v for v in viols if v[0] == rec["key"]]
    for k, d, _ in viols:
        print("replayed: key=%s detail=%s" % (k, json.dumps(d)[:1500]))
    if hit:
        print("VIOLATION property=%s replay=%s" % (rec["property"], "(replayed)"))
        return 1
    print("replay did not reproduce key %s (rc=%s)" % (rec["key"], r.rc))
    return 0 if not inc else 2


def simple_run(pid, tier, seed, t0, jobs, level, rule, assumptions, min_evaluations=1, crash_ok=None,
               post=None, extra_cov=None):
    """plan -> run -> route -> evidence, for checks whose oracle lives entirely in the drivers.
    post(results, agg) may return extra (key, detail, result) violations computed offline."""
    results = run_jobs(jobs)
    viols, inconclusive = collect_violations(results, crash_ok)
    agg = aggregate(results)
    extra = dict(extra_cov or {})
    if post:
        pv, pcov = post(results, agg)
        viols.extend(pv)
        extra.update(pcov or {})
    if agg["evaluations"] < min_evaluations and not viols:
        inconclusive.append("monitors observed only %d evaluations (< %d)" % (agg["evaluations"], min_evaluations))
    extra.setdefault("driver_processes", {"total": len(jobs), "whole_driver_on_a_fresh_thread": sum(1 for j in jobs if j.env.get("VH_ON_THREAD"))})
    cov = generic_coverage(agg, rule, extra)
    return finish(pid, tier, seed, level, viols, inconclusive, cov, assumptions, t0)
