// C08: key switching preserves the phase up to the round-to-nearest truncation of each mask coefficient
//      (exact on a noiseless harness-built key, exhaustive over a mask coefficient) plus the noise of the rows used
#include "vh.hpp"
#include <thread>
#include <atomic>
#include <sched.h>
VH_MAIN_GLOBALS
using namespace vh;

// non-EXPORT library helpers the repository's own tests also call
void lweKeySwitchTranslate_fromArray(LweSample *result, const LweSample ***ks, const LweParams *params,
                                     const Torus32 *ai, const int32_t n, const int32_t t, const int32_t basebit);

static Rng rng;

struct NoiselessKS {
    int n_in, n_out, t, basebit, base;
    LweParams *P; LweKeySwitchKey *ks; std::vector<int32_t> s_in, s_out;
    LweKeySwitchKey *arr = nullptr; int which = -1;      // the key is element 'which' of an array of three keys made by the array allocator
    static int array_element;                             // -1: single-key constructor
    NoiselessKS(int n_in, int n_out, int t, int basebit) : n_in(n_in), n_out(n_out), t(t), basebit(basebit), base(1 << basebit) {
        P = new_LweParams(n_out, 0., 0.25);
        which = array_element;
        if (which >= 0) { arr = new_LweKeySwitchKey_array(3, n_in, t, basebit, P); ks = &arr[which]; }
        else ks = new_LweKeySwitchKey(n_in, t, basebit, P);
        s_in.resize(n_in); s_out.resize(n_out);
        for (auto &x: s_out) x = (int32_t) rng.below(2);
        for (auto &x: s_in) x = (int32_t) rng.below(2);
    }
    void fill_other(LweKeySwitchKey *o) { for (int i = 0; i < n_in; i++) for (int j = 0; j < t; j++) for (int h = 0; h < base; h++) { LweSample *r = &o->ks[i][j][h]; for (int p = 0; p < n_out; p++) r->a[p] = rng.i32(); r->b = rng.i32(); r->current_variance = 0.25; } }
    void fill() {
        // the elements of an array are filled in index order: neighbours written before and after the one under test
        if (arr) { for (int e = 0; e < 3; e++) if (e != which) fill_other(&arr[e]); else fill_mine(); } else fill_mine();
    }
    void fill_mine() {
        for (int i = 0; i < n_in; i++) for (int j = 0; j < t; j++) for (int h = 0; h < base; h++) {
            LweSample *r = &ks->ks[i][j][h];
            U b = (U) s_in[i] * (U) h * ((U) 1 << (32 - (j + 1) * basebit));
            for (int p = 0; p < n_out; p++) { r->a[p] = rng.i32(); b += (U) r->a[p] * (U) s_out[p]; }
            r->b = (int32_t) b; r->current_variance = 0;
        }
    }
    ~NoiselessKS() { if (arr) delete_LweKeySwitchKey_array(3, arr); else delete_LweKeySwitchKey(ks); delete_LweParams(P); }
};
int NoiselessKS::array_element = -1;

static std::string lay(int t, int bb) { char b[32]; snprintf(b, sizeof b, "t%d.bb%d", t, bb); return b; }

// n_in = 1: sweep values of the single mask coefficient; conditions from the property:
//   key bit 0: phase_out == b exactly;  key bit 1: b - phase_out =: R must be a multiple of 2^(32-tb) with |a - R| <= 2^(31-tb)
static void exact_sweep(int t, int bb, int n_out, int lg, int shard, int nshards, bool use_translate) {
    const int tb = t * bb;
    const U unit = (U) 1 << (32 - tb), halfu = unit >> 1 ? unit >> 1 : 0; // 32-tb >= 1
    int64_t sum_err[2] = {0, 0}; uint64_t cnt[2] = {0, 0}; int64_t maxabs = 0; uint64_t ties = 0;
    LweParams *Pin1 = new_LweParams(1, 0, 0.25);
    for (int sbit = 0; sbit < 2; sbit++) {
        NoiselessKS K(1, n_out, t, bb);
        K.s_in[0] = sbit; K.fill();
        GuardedLwe gin(Pin1);
        GuardedLwe gout(K.P);
        uint64_t total = 1ull << lg, per = total / nshards, lo = per * shard, hi = shard == nshards - 1 ? total : lo + per;
        uint64_t width = 1ull << (32 - lg);
        std::vector<U> extra;
        if (shard == 0) { // every carry / wrap boundary
            for (int p = 1; p <= t; p++) for (int k = 0; k < 6; k++) {
                U base_v = (k < 3 ? (U) k : rng.u32()) << (32 - p * bb);
                for (int d = -3; d <= 3; d++) { extra.push_back(base_v + d); extra.push_back(base_v - halfu + d); extra.push_back(base_v + halfu + d); }
            }
            U e[] = {0u, 1u, 0xFFFFFFFFu, 0xFFFFFFFEu, 0x80000000u, 0x7FFFFFFFu, 0u - unit, 0u - halfu, 0u - halfu - 1, 0u - halfu + 1, unit - 1, halfu, halfu - 1, halfu + 1};
            for (U x: e) extra.push_back(x);
            // all-ones digits
            extra.push_back(~(unit - 1)); extra.push_back(~(unit - 1) + halfu); extra.push_back(~(unit - 1) + halfu - 1);
        }
        auto one = [&](U a, bool in_mean) {
            Torus32 b = rng.i32();
            gin.s->a[0] = (int32_t) a; gin.s->b = b;
            for (int i = 0; i < n_out; i++) gout.s->a[i] = rng.i32();
            if (use_translate) {
                lweNoiselessTrivial(gout.s, b, K.P);
                lweKeySwitchTranslate_fromArray(gout.s, (const LweSample ***) K.ks->ks, K.P, gin.s->a, 1, t, bb);
            } else lweKeySwitch(gout.s, K.ks, gin.s);
            U ph = ref_lwe_phase(gout.s, K.s_out.data(), n_out);
            out.evaluations++;
            if (sbit == 0) {
                if (ph != (U) b) out.viol("ks-exact:keybit0:" + lay(t, bb), J().i("t", t).i("basebit", bb).i("n_out", n_out).u("a", a).u("b", (U) b).u("phase_out", ph));
                return;
            }
            U R = (U) b - ph;                 // what was subtracted for a
            int32_t err = (int32_t) (a - R);  // a - R(a)
            bool ok = (R & (unit - 1)) == 0 && (int64_t) iabs64(err) <= (int64_t) halfu;
            if (!ok) out.viol("ks-exact:rounding:" + lay(t, bb), J().i("t", t).i("basebit", bb).i("n_out", n_out).u("a", a).u("removed", R).i("a_minus_removed", err).u("unit", unit));
            if (in_mean) { sum_err[1] += err; cnt[1]++; }   // boundary extras are checked but kept out of the exhaustive mean
            if (iabs64(err) > maxabs) maxabs = iabs64(err);
            if ((U) iabs64(err) == halfu) ties++;
        };
        VH_OP("%s:n_out=%d:t=%d:basebit=%d", use_translate ? "lweKeySwitchTranslate_fromArray" : "lweKeySwitch", n_out, t, bb);
        if (sbit == 1 || lg < 32) {
            if (lg == 32) for (uint64_t v = lo; v < hi; v++) one((U) v, true);
            else for (uint64_t s = lo; s < hi; s++) one((U) (s * width + rng.below(width)), true);
        } else {
            // key bit 0 needs no exhaustive sweep of its own (no digit of a can matter): stratified 2^24
            uint64_t w2 = 1ull << 8; uint64_t l2 = lo >> 8, h2 = hi >> 8;
            for (uint64_t s = l2; s < h2; s++) one((U) (s * w2 + rng.below(w2)), true);
        }
        for (U x: extra) one(x, false);
        if (!gout.g.canary_ok() || !gin.g.canary_ok()) out.viol("ks-exact:underrun", J().i("t", t).i("basebit", bb).i("n_out", n_out));
    }
    delete_LweParams(Pin1);
    double mean = cnt[1] ? (double) sum_err[1] / cnt[1] : 0;
    out.stat(J().s("kind", "exact-sweep").i("t", t).i("basebit", bb).i("n_out", n_out).i("log2count", lg).i("shard", shard)
                     .i("sum_err", sum_err[1]).u("count", cnt[1]).d("mean_err_units", mean).i("max_abs_err", maxabs).u("ties", ties).u("bound", halfu));
    char cell[96]; snprintf(cell, sizeof cell, "exact:%s:n_out=%d:%s:%s", lay(t, bb).c_str(), n_out, lg == 32 ? "all-2^32" : "stratified", use_translate ? "translate" : "keyswitch");
    out.cell(cell, cnt[1]);
}

// several indices at once on a noiseless key: b - phase_out must be a multiple of the unit and within w*half of sum s_i a_i
static void exact_multi(int t, int bb, int n_in, int n_out, int reps) {
    const int tb = t * bb; const U unit = (U) 1 << (32 - tb), halfu = unit >> 1;
    NoiselessKS K(n_in, n_out, t, bb); K.fill();
    LweParams *Pin = new_LweParams(n_in, 0, 0.25);
    GuardedLwe gin(Pin), gout(K.P);
    int w = 0; for (int x: K.s_in) w += x;
    VH_OP("lweKeySwitch:multi:n_in=%d:n_out=%d:t=%d:basebit=%d", n_in, n_out, t, bb);
    for (int rep = 0; rep < reps; rep++) {
        int cls0 = rep % 7;      // 4: every coefficient draws its own class; 5: sparse mask (zero, a few tiny coefficients below one unit, some with
                                 // the rounding bit set); 6: trivial sample with one such coefficient
        int lone = (int) rng.below(n_in);
        for (int i = 0; i < n_in; i++) {
            int cls = cls0 == 4 ? (int) rng.below(4) : cls0;
            U tiny = rng.below(3) == 0 ? halfu + (U) rng.below(halfu) : (U) rng.below(unit);      // below one unit: only the rounding bit may be set
            U v = cls == 0 ? rng.u32() : cls == 1 ? (rng.u32() << (32 - tb)) + halfu + (U) rng.range(-1, 1) : cls == 2 ? 0xFFFFFFFFu - (U) rng.below(4)
                : cls == 5 ? (rng.below(4) == 0 ? tiny : 0u) : cls == 6 ? (i == lone ? halfu + (U) rng.below(halfu) : 0u) : (rng.coin() ? 0x80000000u : 0x7FFFFFFFu);
            gin.s->a[i] = (int32_t) v;
        }
        gin.s->b = rng.i32();
        // the variance annotation of the input is advisory: zero (as for a mask written by hand), tiny, typical, huge
        { static const double vars[] = {0., 1e-300, 1e-18, 9.3e-10 /* 2^-15 squared */, 6.1e-5 /* 2^-7 squared */, 0.25, 7.75}; gin.s->current_variance = vars[rng.below(7)]; }
        lweKeySwitch(gout.s, K.ks, gin.s);
        U ph = ref_lwe_phase(gout.s, K.s_out.data(), n_out);
        U R = (U) gin.s->b - ph; U sa = 0;
        for (int i = 0; i < n_in; i++) sa += (U) K.s_in[i] * (U) gin.s->a[i];
        int32_t err = (int32_t) (sa - R);
        out.evaluations++;
        if ((R & (unit - 1)) != 0 || iabs64(err) > (int64_t) w * (int64_t) halfu)
            out.viol("ks-exact:multi:" + lay(t, bb), J().i("t", t).i("basebit", bb).i("n_in", n_in).i("n_out", n_out).i("class", cls0).u("removed", R).i("err", err).i("key_weight", w).u("unit", unit));
    }
    if (!gout.g.canary_ok()) out.viol("ks-exact:underrun", J().i("n_out", n_out));
    char cell[96]; snprintf(cell, sizeof cell, "exact-multi:%s:n_in=%d:n_out=%d", lay(t, bb).c_str(), n_in, n_out); out.cell(cell, reps);
    delete_LweParams(Pin);
}

// several threads key-switch at the same time, each with its own key of its own decomposition and dimensions (keys built beforehand
// on the main thread); every result is judged by the exact form "removed part is a multiple of the unit, error within w/2 units"
static void threads_mode(uint64_t seed, int T, int iters) {
    struct Cfg { int t, bb, n_in, n_out; }; const Cfg cfgs[] = {{8, 2, 40, 7}, {5, 3, 64, 17}, {2, 8, 33, 5}, {1, 1, 20, 3}, {4, 4, 16, 9}, {15, 2, 24, 4}, {3, 5, 48, 2}, {16, 1, 17, 8}, {10, 3, 30, 6}, {2, 15, 12, 5}, {31, 1, 9, 3}, {6, 5, 21, 1}};
    std::vector<NoiselessKS *> keys; for (int t = 0; t < T; t++) { const Cfg &c = cfgs[t % 12]; keys.push_back(new NoiselessKS(c.n_in, c.n_out, c.t, c.bb)); keys.back()->fill(); }
    std::atomic<uint64_t> bad{0}, calls{0}; std::atomic<int> ready{0}; std::vector<int> wit(T, -1);
    std::vector<std::thread> th;
    for (int t = 0; t < T; t++) th.emplace_back([&, t] {
        NoiselessKS &K = *keys[t]; Rng r(seed * 6151 + t); const int tb = K.t * K.basebit; const U unit = (U) 1 << (32 - tb), halfu = unit >> 1;
        LweParams *Pin = new_LweParams(K.n_in, 0, 0.25); LweSample *x = new_LweSample(Pin), *y = new_LweSample(K.P);
        int w = 0; for (int q: K.s_in) w += q;
        ready++; while (ready.load() < T) sched_yield();
        for (int it = 0; it < iters; it++) {
            for (int i = 0; i < K.n_in; i++) { int cls = (int) r.below(4); x->a[i] = (int32_t) (cls == 0 ? r.u32() : cls == 1 ? (r.u32() << (32 - tb)) + halfu + (U) r.range(-1, 1) : cls == 2 ? 0xFFFFFFFFu - (U) r.below(4) : (U) r.below(unit)); }
            x->b = r.i32(); x->current_variance = 0;
            lweKeySwitch(y, K.ks, x);
            U ph = ref_lwe_phase(y, K.s_out.data(), K.n_out), R = (U) x->b - ph, sa = 0; for (int i = 0; i < K.n_in; i++) sa += (U) K.s_in[i] * (U) x->a[i];
            int32_t err = (int32_t) (sa - R); calls++;
            if ((R & (unit - 1)) != 0 || iabs64(err) > (int64_t) w * (int64_t) halfu) { if (bad++ == 0) wit[t] = it; }
        }
        delete_LweSample(y); delete_LweSample(x); delete_LweParams(Pin);
    });
    for (auto &x: th) x.join();
    out.evaluations += calls.load();
    if (bad.load()) for (int t = 0; t < T; t++) if (wit[t] >= 0) { const Cfg &c = cfgs[t % 12]; out.viol("ks-exact:when-threads-use-different-keys:" + lay(c.t, c.bb), J().i("t", c.t).i("basebit", c.bb).i("n_in", c.n_in).i("n_out", c.n_out).i("threads", T).u("bad_results", bad.load())); break; }
    char cell[96]; snprintf(cell, sizeof cell, "threads:%d-threads-each-with-its-own-key-and-decomposition", T); out.cell(cell, calls.load());
    for (auto *k: keys) delete k;
    out.sample(J().s("mode", "threads").i("threads", T).i("key_switches_per_thread", iters));
}

// real noisy key from lweCreateKeySwitchKey: error statistics over K samples against the noise of the actual rows
static void noisy(int t, int bb, int n_in, int n_out, double alpha, int Ksamples, uint64_t seed) {
    const int tb = t * bb; const int base = 1 << bb;
    seed_library(seed);
    LweParams *Pin = new_LweParams(n_in, alpha, 0.25), *Pout = new_LweParams(n_out, alpha, 0.25);
    LweKey *kin = new_LweKey(Pin), *kout = new_LweKey(Pout);
    lweKeyGen(kin); lweKeyGen(kout);
    LweKeySwitchKey *ks = new_LweKeySwitchKey(n_in, t, bb, Pout);
    VH_OP("lweCreateKeySwitchKey:n_in=%d:n_out=%d", n_in, n_out);
    lweCreateKeySwitchKey(ks, kin, kout);
    // exact noise of every row (harness arithmetic)
    double pred_var = 0, pred_mean = 0, maxsum = 0; int w = 0; bool row_reported = false;
    for (int i = 0; i < n_in; i++) {
        w += kin->key[i];
        for (int j = 0; j < t; j++) {
            double s1 = 0, s2 = 0, mx = 0;
            for (int h = 1; h < base; h++) {
                U msg = (U) kin->key[i] * (U) h * ((U) 1 << (32 - (j + 1) * bb));
                double e = (double) (int32_t) (ref_lwe_phase(&ks->ks[i][j][h], kout->key, n_out) - msg);
                s1 += e; s2 += e * e; if (fabs(e) > mx) mx = fabs(e);
                // a generator asked for noise far below the torus resolution makes rows that carry exactly their message (the
                // recentring of lweCreateKeySwitchKey subtracts the mean of zeros): "the noise of the rows" is then zero
                if (alpha * 4294967296.0 < 1.0 / 256 && e != 0 && !row_reported) {
                    row_reported = true;
                    out.viol("ks-key:noiseless-row-does-not-carry-its-message:" + lay(t, bb), J().i("t", t).i("basebit", bb).i("i", i).i("level", j).i("digit", h).i("key_bit", kin->key[i]).d("row_phase_minus_message_units", e).d("alpha", alpha));
                }
            }
            double m = s1 / base; // digit h uniform over base values, h = 0 contributes no row
            pred_mean -= m; pred_var += s2 / base - m * m; maxsum += mx;
        }
    }
    double unit = ldexp(1.0, 32 - tb);
    pred_var += w * (unit * unit - 1) / 12.0; pred_mean += -0.5 * w; // rounding: uniform on the integers of [-unit/2, unit/2), mean -1/2 unit of 2^-32
    GuardedLwe gin(Pin), gout(Pout);
    double s1 = 0, s2 = 0, mx = 0;
    VH_OP("lweKeySwitch:noisy:n_in=%d:n_out=%d:t=%d:basebit=%d", n_in, n_out, t, bb);
    for (int k = 0; k < Ksamples; k++) {
        for (int i = 0; i < n_in; i++) gin.s->a[i] = rng.i32();
        gin.s->b = rng.i32();
        U pin = ref_lwe_phase(gin.s, kin->key, n_in);
        lweKeySwitch(gout.s, ks, gin.s);
        U pout = ref_lwe_phase(gout.s, kout->key, n_out);
        double e = (double) (int32_t) (pout - pin);
        s1 += e; s2 += e * e; if (fabs(e) > mx) mx = fabs(e);
        out.evaluations++;
        double hard = w * unit / 2 + maxsum + 1;
        if (fabs(e) > hard)
            out.viol("ks-noisy:hard-bound:" + lay(t, bb), J().i("t", t).i("basebit", bb).i("n_in", n_in).i("n_out", n_out).d("err_units", e).d("bound_units", hard));
    }
    double mean = s1 / Ksamples, var = s2 / Ksamples - mean * mean;
    double se_mean = sqrt(pred_var / Ksamples), rel = pred_var > 0 ? var / pred_var - 1 : (var > 0 ? 1e9 : 0), se_rel = sqrt(2.0 / Ksamples) * 1.5; // kurtosis allowance (sum of bounded + gaussian terms)
    bool ok_mean = fabs(mean - pred_mean) <= 8 * se_mean + 2;
    bool ok_var = fabs(rel) <= 8 * se_rel;
    // analytic expectation from the property: (rows used) alpha^2 + (key weight) 2^(-2tb)/12
    // For ONE key the per-(i,j) digit means do not vanish (only their total does, by the recentring), so the variance over
    // samples is E[sum_ij Var_h(noise_ijh)] = n t (1-1/base)^2 alpha^2, not n t (1-1/base) alpha^2.
    double analytic = (double) n_in * t * (1.0 - 1.0 / base) * (1.0 - 1.0 / base) * pow(alpha * 4294967296.0, 2) + w * (unit * unit - 1) / 12.0;
    double rel_an = analytic > 0 ? var / analytic - 1 : (var > 0 ? 1e9 : 0);
    double se_key = sqrt(2.0 / (n_in * t * (base - 1.0)));  // fluctuation of the realised key rows around alpha^2
    bool ok_an = fabs(rel_an) <= 8 * sqrt(se_rel * se_rel + se_key * se_key) + 0.02;
    out.stat(J().s("kind", "noisy").i("t", t).i("basebit", bb).i("n_in", n_in).i("n_out", n_out).d("alpha", alpha).i("K", Ksamples)
                     .d("mean_units", mean).d("pred_mean_units", pred_mean).d("se_mean", se_mean).d("var_units2", var).d("pred_var_from_rows", pred_var)
                     .d("analytic_var", analytic).d("rel_dev_rows", rel).d("rel_dev_analytic", rel_an).d("tolerance_rel", 8 * se_rel).d("max_abs_err", mx).i("key_weight", w));
    if (!ok_mean) out.viol("ks-noisy:mean:" + lay(t, bb), J().d("mean", mean).d("pred_mean", pred_mean).d("se", se_mean).i("K", Ksamples).i("n_in", n_in).i("n_out", n_out).d("alpha", alpha));
    if (!ok_var) out.viol("ks-noisy:variance-vs-rows:" + lay(t, bb), J().d("var", var).d("pred_var", pred_var).d("rel", rel).d("tol", 8 * se_rel).i("K", Ksamples).d("alpha", alpha));
    if (!ok_an) out.viol("ks-noisy:variance-vs-formula:" + lay(t, bb), J().d("var", var).d("analytic", analytic).d("rel", rel_an).i("K", Ksamples).d("alpha", alpha));
    char cell[128]; snprintf(cell, sizeof cell, "noisy:%s:n_in=%d:n_out=%d:alpha=2^%.0f", lay(t, bb).c_str(), n_in, n_out, log2(alpha)); out.cell(cell, Ksamples);
    delete_LweKeySwitchKey(ks); delete_LweKey(kin); delete_LweKey(kout); delete_LweParams(Pin); delete_LweParams(Pout);
}

int main(int argc, char **argv) {
    Args args(argc, argv);
    out.open(args.s("out", "-"));
    install_crash_handler();
    uint64_t seed = args.i("seed", 1);
    std::string mode = args.s("mode", "exact");
    int t = args.i("t", 8), bb = args.i("basebit", 2), n_out = args.i("n_out", 1), n_in = args.i("n_in", 1);
    int shard = args.i("shard", 0), nshards = args.i("nshards", 1);
    rng.reseed(seed * 1000003ull + t * 131 + bb * 17 + n_out * 3 + shard * 7919 + (mode == "noisy" ? 5 : 0));
    NoiselessKS::array_element = args.i("arrayelement", -1);
    if (NoiselessKS::array_element >= 0) { char c[64]; snprintf(c, sizeof c, "key-is-element-%d-of-a-key-array", NoiselessKS::array_element); out.cell(c); }
    // process history: a key-switching key of another decomposition and other dimensions is created and used first
    if (args.i("prelude", 0)) {
        int t0 = t == 3 ? 5 : 3, bb0 = bb == 4 ? 3 : 4;
        int save = NoiselessKS::array_element; NoiselessKS::array_element = -1;
        exact_multi(t0, bb0, n_in == 7 ? 9 : 7, n_out == 4 ? 6 : 4, 40);
        NoiselessKS::array_element = save;
        out.cell("history:other-decomposition-used-first-in-this-process");
    }
    if (mode == "threads") { threads_mode(seed, args.i("threads", 12), args.i("iters", 3000)); out.finish(); return 0; }
    if (mode == "exact") {
        int lg = args.i("log2count", 24);
        exact_sweep(t, bb, n_out, lg, shard, nshards, args.has("translate"));
        out.sample(J().s("mode", "exact").i("t", t).i("basebit", bb).i("n_out", n_out).i("log2count", lg).i("shard", shard));
    } else if (mode == "multi") {
        exact_multi(t, bb, n_in, n_out, args.i("reps", 2000));
        out.sample(J().s("mode", "multi").i("t", t).i("basebit", bb).i("n_in", n_in).i("n_out", n_out));
    } else if (mode == "noisy") {
        noisy(t, bb, n_in, n_out, args.d("alpha", ldexp(1., -20)), args.i("K", 100000), seed + shard);
        out.sample(J().s("mode", "noisy").i("t", t).i("basebit", bb).i("n_in", n_in).i("n_out", n_out).d("alpha", args.d("alpha", ldexp(1., -20))).i("K", args.i("K", 100000)));
    }
    out.finish();
    return 0;
}
