// C06: homomorphic evaluation is deterministic, thread-safe and history-independent.
// Byte-compare history oracle: every job (gate / bootstrapping / external product / FFT product on fixed inputs, two cloud keys)
// is evaluated once on the main thread; then rounds of T freshly created threads re-evaluate the jobs in seeded random order,
// interleaved with unrelated "history noise" operations, while one extra thread generates keys on its own data.
// The same binary is run under ThreadSanitizer and helgrind by the check (harness threads do no stdio).
#include "gates.hpp"
#include "heap_phase.hpp"
#include <thread>
#include <atomic>
#include <mutex>
#include <sched.h>
#include <sys/wait.h>
VH_MAIN_GLOBALS
using namespace vh;

static const int N = 1024;

struct KeyCtx { PSet *ps = nullptr; TFheGateBootstrappingParameterSet *dp = nullptr; const TFheGateBootstrappingParameterSet *gb; TFheGateBootstrappingSecretKeySet *sk; const TFheGateBootstrappingCloudKeySet *ck; int n; };

enum JobKind { J_GATE, J_BOOT_FFT, J_BOOT_WOKS_FFT, J_BOOT, J_EXTPROD_FFT, J_EXTPROD, J_FFTMUL, J_KEYSWITCH, J_KINDS };
static const char *jk_name[] = {"gate", "tfhe_bootstrap_FFT", "tfhe_bootstrap_woKS_FFT", "tfhe_bootstrap", "tGswFFTExternMulToTLwe", "tGswExternProduct", "torusPolynomialMultFFT", "lweKeySwitch"};

struct JobDef {
    int kind, key, gate = 0, idx = 0; LweSample *in[3] = {nullptr, nullptr, nullptr}; Torus32 mu = 0;
    TLweSample *acc = nullptr; IntPolynomial *ip = nullptr; TorusPolynomial *tp = nullptr; LweSample *ext = nullptr;
    std::vector<uint8_t> ref;
    std::string name() const { return kind == J_GATE ? std::string("boots") + GATES[gate].name : jk_name[kind]; }
};

static KeyCtx keys[2];
static std::vector<JobDef> jobs;
static int first_gate_job[2] = {0, 0};

// runs a job and serialises its output
static void run_job(const JobDef &j, std::vector<uint8_t> &outb) {
    const KeyCtx &K = keys[j.key];
    const TGswParams *tg = K.gb->tgsw_params; const TLweParams *tl = tg->tlwe_params; int k = tl->k;
    outb.clear();
    auto put = [&](const void *p, size_t n) { const uint8_t *b = (const uint8_t *) p; outb.insert(outb.end(), b, b + n); };
    switch (j.kind) {
        case J_GATE: { LweSample *r = new_LweSample(K.gb->in_out_params); gate_eval(j.gate, r, j.in[0], j.in[1], j.in[2], 1, K.ck); put(r->a, 4 * K.n); put(&r->b, 4); delete_LweSample(r); break; }
        case J_BOOT_FFT: { LweSample *r = new_LweSample(K.gb->in_out_params); tfhe_bootstrap_FFT(r, K.ck->bkFFT, j.mu, j.in[0]); put(r->a, 4 * K.n); put(&r->b, 4); delete_LweSample(r); break; }
        case J_BOOT: { LweSample *r = new_LweSample(K.gb->in_out_params); tfhe_bootstrap(r, K.ck->bk, j.mu, j.in[0]); put(r->a, 4 * K.n); put(&r->b, 4); delete_LweSample(r); break; }
        case J_BOOT_WOKS_FFT: { LweSample *r = new_LweSample(&tl->extracted_lweparams); tfhe_bootstrap_woKS_FFT(r, K.ck->bkFFT, j.mu, j.in[0]); put(r->a, 4 * k * N); put(&r->b, 4); delete_LweSample(r); break; }
        case J_EXTPROD_FFT: { TLweSample *a = new_TLweSample(tl); tLweCopy(a, j.acc, tl); tGswFFTExternMulToTLwe(a, &K.ck->bkFFT->bkFFT[j.idx], tg); for (int i = 0; i <= k; i++) put(a->a[i].coefsT, 4 * N); delete_TLweSample(a); break; }
        case J_EXTPROD: { TLweSample *a = new_TLweSample(tl), *c = new_TLweSample(tl); tLweCopy(c, j.acc, tl);   // private copy: the decomposition shifts its operand temporarily
            tGswExternProduct(a, &K.ck->bk->bk[j.idx], c, tg); for (int i = 0; i <= k; i++) put(a->a[i].coefsT, 4 * N); delete_TLweSample(a); delete_TLweSample(c); break; }
        case J_FFTMUL: { TorusPolynomial *r = new_TorusPolynomial(N); torusPolynomialMultFFT(r, j.ip, j.tp); put(r->coefsT, 4 * N); delete_TorusPolynomial(r); break; }
        case J_KEYSWITCH: { LweSample *r = new_LweSample(K.gb->in_out_params); lweKeySwitch(r, K.ck->bkFFT->ks, j.ext); put(r->a, 4 * K.n); put(&r->b, 4); delete_LweSample(r); break; }
    }
}

// history noise: unrelated operations on the same thread (per-thread FFT state must not leak into later results)
static const char *noise_name[] = {"none", "fft-product-extremes", "other-gate-same-key", "gate-other-key", "lagrange-accumulate", "alloc-free-fft-objects"};
static void history_noise(int which, Rng &r, IntPolynomial *ip, TorusPolynomial *tp, TorusPolynomial *res, LweSample **scratch) {
    switch (which) {
        case 1: for (int j = 0; j < N; j++) { ip->coefs[j] = (j & 1) ? -512 : 511; tp->coefsT[j] = (j & 2) ? INT32_MIN : INT32_MAX; } torusPolynomialMultFFT(res, ip, tp); torusPolynomialAddMulRFFT(res, ip, tp); break;
        case 2: { const KeyCtx &K = keys[0]; const JobDef &j0 = jobs[first_gate_job[0]]; gate_eval((int) r.below(G_MUX + 1), scratch[0], j0.in[0], j0.in[1], j0.in[2], 1, K.ck); break; }
        case 3: { const KeyCtx &K = keys[1]; const JobDef &j1 = jobs[first_gate_job[1]]; gate_eval((int) r.below(G_MUX), scratch[1], j1.in[0], j1.in[1], j1.in[2], 1, K.ck); break; }
        case 4: { LagrangeHalfCPolynomial *a = new_LagrangeHalfCPolynomial_array(3, N); for (int j = 0; j < N; j++) { ip->coefs[j] = (int32_t) r.range(-64, 63); tp->coefsT[j] = r.i32(); }
            IntPolynomial_ifft(a, ip); TorusPolynomial_ifft(a + 1, tp); LagrangeHalfCPolynomialClear(a + 2); for (int t = 0; t < 4; t++) LagrangeHalfCPolynomialAddMul(a + 2, a, a + 1); TorusPolynomial_fft(res, a + 2); delete_LagrangeHalfCPolynomial_array(3, a); break; }
        case 5: { TGswSampleFFT *g = new_TGswSampleFFT(keys[0].gb->tgsw_params); tGswFFTClear(g, keys[0].gb->tgsw_params); delete_TGswSampleFFT(g); break; }
        default: break;
    }
}

static std::atomic<int> in_flight{0}, max_in_flight{0};
static std::atomic<int> barrier_waiting{0}; static std::atomic<bool> barrier_open{true};
static std::atomic<uint64_t> comparisons{0}, mismatches{0}, thread_creations{0}, keygens{0};
static std::mutex report_mu;
struct Mismatch { std::string job, pred; int T, tid, round, first_diff; };
static std::vector<Mismatch> mism;
static std::set<std::pair<int, int>> pred_pairs;   // (job, predecessor op) pairs seen, merged at the end of each round

static void worker(int T, int tid, int round, uint64_t seed, int passes, std::set<std::pair<int, int>> *pairs) {
    Rng r(seed * 0x9E37 + tid * 7919 + round * 104729 + T);
    // where this thread's allocator places its blocks modulo 32 is part of the history (a third of the threads: as malloc does)
    { int sel = (tid + round + T) % 4; set_heap_phase(sel == 0 ? 0 : sel == 1 ? 16 : sel == 2 ? 100 : -1); }
    IntPolynomial *ip = new_IntPolynomial(N); TorusPolynomial *tp = new_TorusPolynomial(N), *res = new_TorusPolynomial(N);
    LweSample *scratch[2] = {new_LweSample(keys[0].gb->in_out_params), new_LweSample(keys[1].gb->in_out_params)};
    std::vector<uint8_t> ob;
    if (!barrier_open.load()) {      // released together: every thread does its first FFT at the same moment
        barrier_waiting++;
        while (!barrier_open.load()) { /* spin */ }
    } else {
        int start_delay = (int) r.below(200);
        for (int i = 0; i < start_delay; i++) sched_yield();
    }
    for (int pass = 0; pass < passes; pass++) {
        std::vector<int> order(jobs.size()); for (size_t i = 0; i < order.size(); i++) order[i] = (int) i;
        for (size_t i = order.size(); i > 1; i--) std::swap(order[i - 1], order[r.below(i)]);
        int pred = 0;
        for (int ji: order) {
            int nz = (int) r.below(6);
            if (nz) { history_noise(nz, r, ip, tp, res, scratch); pred = nz; }
            if (r.below(4) == 0) sched_yield();
            int f = ++in_flight; int m = max_in_flight.load(); while (f > m && !max_in_flight.compare_exchange_weak(m, f)) {}
            VH_OP("thread:%s:T=%d", jobs[ji].name().c_str(), T);
            run_job(jobs[ji], ob);
            --in_flight;
            comparisons++;
            pairs->insert({ji, pred});
            if (ob.size() != jobs[ji].ref.size() || memcmp(ob.data(), jobs[ji].ref.data(), ob.size())) {
                mismatches++;
                size_t d = 0; while (d < ob.size() && d < jobs[ji].ref.size() && ob[d] == jobs[ji].ref[d]) d++;
                std::lock_guard<std::mutex> lk(report_mu);
                if (mism.size() < 20) mism.push_back({jobs[ji].name(), pred >= 100 ? std::string("job:") + jk_name[pred - 100] : std::string(noise_name[pred]), T, tid, round, (int) d});
            }
            pred = 100 + jobs[ji].kind;
        }
    }
    delete_LweSample(scratch[0]); delete_LweSample(scratch[1]);
    delete_TorusPolynomial(res); delete_TorusPolynomial(tp); delete_IntPolynomial(ip);
}

static void keygen_thread(uint64_t seed, std::atomic<bool> *stop, int small_n) {
    // the only legitimate user of the global generator while evaluations run; works on its own data only
    while (!stop->load()) {
        PSet ps(small_n, 1024, 1, 2, 8, 2, 2, ldexp(1., -20), ldexp(1., -30));
        TFheGateBootstrappingSecretKeySet *sk = new_random_gate_bootstrapping_secret_keyset(ps.gb);
        LweSample *c = new_gate_bootstrapping_ciphertext(ps.gb); bootsSymEncrypt(c, 1, sk);
        delete_gate_bootstrapping_ciphertext(c); delete_gate_bootstrapping_secret_keyset(sk);
        keygens++;
    }
    (void) seed;
}

int main(int argc, char **argv) {
    Args args(argc, argv);
    out.open(args.s("out", "-"));
    install_crash_handler();
    uint64_t seed = args.i("seed", 1);
    int lambda = args.i("lambda", 0), rounds = args.i("rounds", 2), passes = args.i("passes", 1);
    bool with_keygen = args.i("keygen", 1), slow_jobs = args.i("slowjobs", 1);
    std::vector<int> Ts; { std::stringstream ss(args.s("threads", "1,2,4,8,16")); std::string t; while (std::getline(ss, t, ',')) Ts.push_back(atoi(t.c_str())); }
    Rng rng(seed * 1000003ull + lambda);
    seed_library(seed * 23 + lambda);
    std::string cfg;
    { char b[96]; snprintf(b, sizeof b, "%s/%s/%s%s", flavor_name(), backend_name(), lambda ? (lambda <= 80 ? "default80" : "default128") : "small-n16", args.i("detached", 0) ? "/detached-keygen" : ""); cfg = b; }
    // CPU affinity of the process, set before the library is first used: a mask with holes (container cpusets, one CPU per SMT
    // pair), a single CPU (every interleaving comes from preemption), or a contiguous block
    if (args.has("affinity")) {
        cpu_set_t set; CPU_ZERO(&set); std::stringstream as(args.s("affinity", "")); std::string t; int ncpu = 0;
        while (std::getline(as, t, ',')) { CPU_SET(atoi(t.c_str()), &set); ncpu++; }
        int rc = sched_setaffinity(0, sizeof set, &set);
        out.stat(J().s("kind", "affinity").s("mask", args.s("affinity", "")).i("sched_setaffinity", rc));
        out.cell(rc == 0 ? "affinity:" + args.s("affinity", "") : std::string("affinity:unavailable"));
    }
    bool detached = args.i("detached", 0);
    // detached history: the main thread never touches the FFT. Keys, jobs and references are produced by a helper thread that
    // exits; an idle thread then inherits its cached stack; workers are released together by a barrier so that the first
    // FFT of several threads happens at the same time while no live thread owns any per-thread FFT state.
    auto setup = [&]() {
    VH_OP("keygen:%s", cfg.c_str());
    for (int ki = 0; ki < 2; ki++) {
        KeyCtx &K = keys[ki];
        if (lambda && ki == 0) { K.dp = default_params(lambda); K.gb = K.dp; }
        else { K.ps = new PSet(args.i("n", 16) + 4 * ki, 1024, ki ? 2 : 1, ki ? 2 : 3, ki ? 10 : 7, ki ? 6 : 4, ki ? 2 : 3, ldexp(1., -20), ldexp(1., -30)); /* the two keys differ in every layout (k = 1, l = 3 against k = 2, l = 2: the same (k+1) l), key switch included */ K.gb = K.ps->gb; }
        K.sk = new_random_gate_bootstrapping_secret_keyset(K.gb); K.ck = &K.sk->cloud; K.n = K.gb->in_out_params->n;
    }
    // job table
    auto enc = [&](int key, int bit) { LweSample *c = new_LweSample(keys[key].gb->in_out_params); bootsSymEncrypt(c, bit, keys[key].sk); return c; };
    for (int key = 0; key < 2; key++) {
        int gl[] = {G_NAND, G_XOR, G_MUX, G_ANDYN, G_OR, G_NOT};
        for (int g: gl) { if (key == 1 && g != G_NAND && g != G_MUX) continue; JobDef j; j.kind = J_GATE; j.key = key; j.gate = g; for (int i = 0; i < 3; i++) j.in[i] = enc(key, rng.below(2)); jobs.push_back(j); }
        { JobDef j; j.kind = J_BOOT_FFT; j.key = key; j.in[0] = enc(key, 1); j.mu = rng.i32(); jobs.push_back(j); }
        { JobDef j; j.kind = J_BOOT_WOKS_FFT; j.key = key; j.in[0] = enc(key, 0); j.mu = 1 << 29; jobs.push_back(j); }
        if (slow_jobs && !(lambda && key == 0)) { JobDef j; j.kind = J_BOOT; j.key = key; j.in[0] = enc(key, 1); j.mu = 1 << 29; jobs.push_back(j); }
        const TLweParams *tl = keys[key].gb->tgsw_params->tlwe_params;
        { JobDef j; j.kind = J_EXTPROD_FFT; j.key = key; j.idx = rng.below(keys[key].n); j.acc = new_TLweSample(tl); for (int i = 0; i <= tl->k; i++) for (int q = 0; q < N; q++) j.acc->a[i].coefsT[q] = rng.i32(); jobs.push_back(j); }
        if (slow_jobs) { JobDef j; j.kind = J_EXTPROD; j.key = key; j.idx = rng.below(keys[key].n); j.acc = new_TLweSample(tl); for (int i = 0; i <= tl->k; i++) for (int q = 0; q < N; q++) j.acc->a[i].coefsT[q] = rng.i32(); jobs.push_back(j); }
        { JobDef j; j.kind = J_KEYSWITCH; j.key = key; j.ext = new_LweSample(&tl->extracted_lweparams); for (int q = 0; q < tl->k * N; q++) j.ext->a[q] = rng.i32(); j.ext->b = rng.i32(); jobs.push_back(j); }
    }
    { JobDef j; j.kind = J_FFTMUL; j.key = 0; j.ip = new_IntPolynomial(N); j.tp = new_TorusPolynomial(N); for (int q = 0; q < N; q++) { j.ip->coefs[q] = (int32_t) rng.range(-512, 511); j.tp->coefsT[q] = rng.i32(); } jobs.push_back(j); }
    for (size_t i = jobs.size(); i-- > 0;) if (jobs[i].kind == J_GATE) first_gate_job[jobs[i].key] = (int) i;
    if (args.i("warm", 0)) {
        // helgrind does not model the __cxa_guard protocol of function-local statics (the gate constants): initialise them on
        // the main thread before any thread exists. ThreadSanitizer understands the guards, so TSan runs do not warm up.
        LweSample *r = new_LweSample(keys[0].gb->in_out_params); const JobDef &j0 = jobs[first_gate_job[0]];
        for (int g = 0; g < G_COUNT; g++) gate_eval(g, r, j0.in[0], j0.in[1], j0.in[2], 1, keys[0].ck);
        delete_LweSample(r);
    }
    VH_OP("reference:%s", cfg.c_str());
    for (auto &j: jobs) run_job(j, j.ref);
    // the placement of temporaries must not matter: same thread, every block at 0 and then at 16 modulo 32
    for (int ph: {0, 16, 100}) { set_heap_phase(ph); std::vector<uint8_t> ob;
        for (auto &j: jobs) { VH_OP("heap-phase-%d:%s", ph, j.name().c_str()); run_job(j, ob); comparisons++;
            if (ob != j.ref) { mismatches++; size_t d = 0; while (d < ob.size() && d < j.ref.size() && ob[d] == j.ref[d]) d++; char hb[48]; snprintf(hb, sizeof hb, ph == 100 ? "heap blocks spread over distant regions" : "heap blocks at %d mod 32", ph); mism.push_back({j.name(), hb, 0, 0, 0, (int) d}); } } }
    set_heap_phase(-1);
    // the same job after different prefixes on one thread
    { std::set<std::pair<int, int>> pp; worker(0, 0, 0, seed, 2, &pp); for (auto &p: pp) pred_pairs.insert(p); }
    };
    if (detached) { std::thread k(setup); k.join(); thread_creations++; } else setup();
    // long runs: the same evaluations repeated far more often than any 8- or 16-bit counter, cache index or pool slot can
    // count, on one thread, every result compared with the reference (call number K must behave like call number 1)
    if (int K = args.i("longrun", 0)) {
        std::vector<int> cheap; for (size_t i = 0; i < jobs.size(); i++) if (jobs[i].key == 1 && (jobs[i].kind == J_GATE || jobs[i].kind == J_EXTPROD_FFT || jobs[i].kind == J_KEYSWITCH)) cheap.push_back((int) i);
        for (size_t i = 0; i < jobs.size(); i++) if (jobs[i].kind == J_FFTMUL) cheap.push_back((int) i);
        std::vector<uint8_t> ob; uint64_t bad = 0; int first_bad = -1;
        for (int it = 0; it < K; it++) for (int ji: cheap) {
            if (jobs[ji].kind == J_GATE && jobs[ji].gate == G_MUX && (it & 7)) continue;
            VH_OP("longrun:%s:call=%d", jobs[ji].name().c_str(), it);
            run_job(jobs[ji], ob); comparisons++;
            if (ob != jobs[ji].ref) { bad++; mismatches++; if (first_bad < 0) { first_bad = it; mism.push_back({jobs[ji].name(), "long run: call number " + std::to_string(it), 1, 0, 0, 0}); } }
        }
        char cell[96]; snprintf(cell, sizeof cell, "%s:longrun:%d-calls-per-entry-point", cfg.c_str(), K); out.cell(cell, (uint64_t) K * cheap.size());
    }
    // fork history: a child process created by fork() (a pre-forking server) inherits the keys and whatever per-thread FFT state the
    // forking thread had; it evaluates on its only thread and on two new threads; every result must equal the parent's references
    if (args.i("fork", 0)) {
        VH_OP("fork-history");
        fflush(out.f);
        pid_t pid = fork();
        if (pid == 0) {
            std::set<std::pair<int, int>> pp, p1, p2;
            worker(1, 0, 0, seed + 31, 1, &pp);
            std::thread a(worker, 2, 0, 1, seed + 32, 1, &p1), b(worker, 2, 1, 1, seed + 33, 1, &p2); a.join(); b.join();
            _exit(mismatches.load() ? 3 : 0);
        }
        int st = 0; waitpid(pid, &st, 0); out.evaluations += 3 * jobs.size();
        if (!WIFEXITED(st) || WEXITSTATUS(st) != 0)
            out.viol("concurrency:output-differs:in-a-forked-child", J().s("config", cfg).i("exit_status", WIFEXITED(st) ? WEXITSTATUS(st) : -1).i("signal", WIFSIGNALED(st) ? WTERMSIG(st) : 0));
        out.cell(cfg + ":forked-child(1 thread, then 2 threads)", 3 * jobs.size());
    }
    std::atomic<bool> idle_stop{false}; std::vector<std::thread> idlers;
    if (detached) for (int i = 0; i < 2; i++) { idlers.emplace_back([&] { while (!idle_stop.load()) usleep(2000); }); thread_creations++; }
    for (int T: Ts) {
        for (int round = 0; round < rounds; round++) {
            VH_OP("round:%s:T=%d", cfg.c_str(), T);
            std::atomic<bool> stop{false};
            std::thread kg;
            if (with_keygen && !detached) { kg = std::thread(keygen_thread, seed + round, &stop, 8); thread_creations++; }
            std::vector<std::thread> th; std::vector<std::set<std::pair<int, int>>> pp(T);
            if (detached && (round & 1) == 0) { barrier_open = false; barrier_waiting = 0; }
            for (int t = 0; t < T; t++) { th.emplace_back(worker, T, t, round, seed, passes, &pp[t]); thread_creations++; }
            if (!barrier_open.load()) { while (barrier_waiting.load() < T) sched_yield(); barrier_open = true; }
            for (auto &t: th) t.join();
            stop = true; if (with_keygen && !detached) kg.join();
            for (auto &s: pp) for (auto &p: s) pred_pairs.insert(p);
            char cell[96]; snprintf(cell, sizeof cell, "%s:T=%d", cfg.c_str(), T); out.cell(cell, (uint64_t) T * passes * jobs.size());
        }
    }
    out.evaluations = comparisons.load();
    for (auto &m: mism)
        out.viol("concurrency:output-differs:" + m.job, J().s("config", cfg).s("job", m.job).i("threads", m.T).i("thread", m.tid).i("round", m.round).s("preceded_on_thread_by", m.pred).i("first_differing_byte", m.first_diff).u("mismatches_total", mismatches.load()));
    std::set<int> kinds; for (auto &j: jobs) kinds.insert(j.kind);
    out.stat(J().s("kind", "concurrency").s("config", cfg).u("comparisons", comparisons.load()).u("mismatches", mismatches.load()).i("max_evaluations_in_flight", max_in_flight.load())
                     .u("thread_creations", thread_creations.load()).u("distinct_job_predecessor_pairs", pred_pairs.size()).u("jobs", jobs.size()).u("keygens_alongside", keygens.load()));
    out.sample(J().s("config", cfg).raw("thread_counts", jarr(Ts)).i("rounds", rounds).u("jobs", jobs.size()).u("comparisons", comparisons.load()).i("max_evaluations_in_flight", max_in_flight.load()).u("distinct_job_predecessor_pairs", pred_pairs.size()).u("keygens_alongside", keygens.load()));
    idle_stop = true; for (auto &t: idlers) t.join();
    // leave the key sets alive on purpose until exit: threads are gone, nothing else to check; free for the leak checkers
    for (auto &j: jobs) { for (int i = 0; i < 3; i++) if (j.in[i]) delete_LweSample(j.in[i]); if (j.acc) delete_TLweSample(j.acc); if (j.ip) delete_IntPolynomial(j.ip); if (j.tp) delete_TorusPolynomial(j.tp); if (j.ext) delete_LweSample(j.ext); }
    for (int ki = 0; ki < 2; ki++) { delete_gate_bootstrapping_secret_keyset(keys[ki].sk); if (keys[ki].ps) delete keys[ki].ps; if (keys[ki].dp) delete_gate_bootstrapping_parameters(keys[ki].dp); }
    out.finish();
    return 0;
}
