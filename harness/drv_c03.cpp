// C03: decryption inverts encryption for LWE, TLWE, TGSW and gate ciphertexts; trivial samples decrypt under every key
#include "gates.hpp"
VH_MAIN_GLOBALS
using namespace vh;

static Rng rng;

static const char *acls_name[] = {"tiny", "2^-30", "mid", "max(1/(20M))", "zero"};
static double pick_alpha(int cls, double amax) {
    switch (cls) {
        case 0: return 1e-12 < amax ? 1e-12 : amax;
        case 1: return ldexp(1., -30) < amax ? ldexp(1., -30) : amax;
        case 4: return 0.;      // a fresh encryption with no noise at all still has a random mask
        case 2: return exp(log(ldexp(1., -30)) + rng.unit() * (log(amax) - log(ldexp(1., -30))));
        default: return amax;
    }
}

static std::vector<int32_t> messages(int32_t M, int extra) {
    std::vector<int32_t> ms;
    if (M <= 64) for (int32_t m = 0; m < M; m++) ms.push_back(m);
    else { ms = {0, 1, M / 2 - 1, M / 2, M / 2 + 1, M - 1}; for (int i = 0; i < extra; i++) ms.push_back((int32_t) rng.below(M)); }
    return ms;
}

static void lwe_part(bool thorough) {
    int ns[] = {1, 2, 7, 8, 9, 16, 500, 630, 1024};
    std::vector<int32_t> Ms = {2, 3, 4, 5, 7, 8, 16, 100, 1000, 1024, 1 << 12, 1 << 16, 1 << 20};
    for (int n: ns) for (int pv = 0; pv < 2; pv++) {
        // two parameter objects per dimension: negligible advisory noise bounds, and the bounds of the documented gate sets
        // (the requested noise level, not the parameter set's advisory minimum, is what an encryption must use)
        double amin = pv == 0 ? 1e-9 : (n == 500 ? 2.44e-5 : ldexp(1., -15)), amax = pv == 0 ? 0.25 : 0.012467;
        if (pv == 1 && !(n == 500 || n == 630 || n == 8 || n == 1)) continue;
        LweParams *P = new_LweParams(n, amin, amax);
        int nkeys = thorough ? 4 : 2;
        // one key object, re-generated in place for every further key (after it has been used to decrypt): "for every key"
        // includes the second key an object holds
        LweKey *K = new_LweKey(P);
        for (int kk = 0; kk < nkeys; kk++) {
            lweKeyGen(K);
            LweSample *c = new_LweSample(P);
            for (int32_t M: Ms) {
                double amax = 1.0 / (20.0 * M);
                // prescribed errors over the whole decoding interval (-1/2M, 1/2M), both ends approached to a few units
                { const double halfw = 4294967296.0 / (2.0 * M);
                  for (int q = 0; q < 48; q++) { int32_t m = (int32_t) rng.below(M); Torus32 mu = modSwitchToTorus32(m, M);
                      double f = q < 8 ? (q & 1 ? 1 : -1) * (1.0 - (3.0 + q) / halfw) : (rng.unit() * 2 - 1) * 0.999; if (halfw < 64) f *= 0.5;
                      int32_t e = (int32_t) (f * (halfw - 2));
                      VH_OP("lweSymDecrypt:prescribed-error:n=%d:M=%d", n, M);
                      lweSymEncrypt(c, mu, 0., K); c->b += e;
                      out.evaluations++;
                      if (lweSymDecrypt(c, K, M) != mu) { out.viol("decrypt:lwe", J().i("n", n).i("Msize", M).i("message", m).s("noise", "prescribed inside the decoding interval").d("error_over_half_interval", e / halfw)); break; } } }
                for (int ac = 0; ac < 5; ac++) {
                    double alpha = pick_alpha(ac, amax);
                    for (int32_t m: messages(M, thorough ? 40 : 10)) {
                        Torus32 mu = modSwitchToTorus32(m, M);
                        VH_OP("lweSymEncrypt/Decrypt:n=%d:M=%d", n, M);
                        lweSymEncrypt(c, mu, alpha, K);
                        Torus32 dec = lweSymDecrypt(c, K, M);
                        int32_t back = modSwitchFromTorus32(lwePhase(c, K), M);
                        out.evaluations++;
                        if (dec != mu || back != m)
                            out.viol("decrypt:lwe", J().i("n", n).i("Msize", M).i("message", m).d("alpha", alpha).i("encoded", mu).i("lweSymDecrypt", dec).i("modSwitch_of_phase", back)
                                    .d("phase_error_units", (double) (int32_t) (ref_lwe_phase(c, K->key, n) - (U) mu)));
                        if (c->current_variance != alpha * alpha) out.viol("decrypt:lwe-variance-annotation", J().i("n", n).d("alpha", alpha).d("variance", c->current_variance));
                    }
                    char cell[96]; snprintf(cell, sizeof cell, "lwe:n=%d:%s:M=%d:alpha=%s", n, pv ? "gate-set-bounds" : "tiny-bounds", M, acls_name[ac]); out.cell(cell);
                }
            }
            delete_LweSample(c);
        }
        delete_LweKey(K);
        // noiseless trivial samples decrypt to their message under several unrelated keys
        LweSample *t = new_LweSample(P);
        for (int rep = 0; rep < 20; rep++) {
            int32_t M = Ms[rep % Ms.size()]; int32_t m = (int32_t) rng.below(M); Torus32 mu = modSwitchToTorus32(m, M);
            lweNoiselessTrivial(t, mu, P);
            for (int kk = 0; kk < 3; kk++) {
                LweKey *K = new_LweKey(P); lweKeyGen(K);
                out.evaluations++;
                if (lweSymDecrypt(t, K, M) != mu || lwePhase(t, K) != mu) out.viol("decrypt:lwe-trivial", J().i("n", n).i("Msize", M).i("message", m));
                delete_LweKey(K);
            }
        }
        char cell[64]; snprintf(cell, sizeof cell, "lwe-trivial:n=%d", n); out.cell(cell);
        delete_LweSample(t); delete_LweParams(P);
    }
}

static void tlwe_part(int k, bool thorough) {
    const int N = 1024;
    TLweParams *P = new_TLweParams(N, k, 1e-9, 0.25);
    std::vector<int32_t> Ms = {2, 3, 4, 5, 6, 7, 8, 16, 100, 1000, 1024, 1 << 16};
    TorusPolynomial *msg = new_TorusPolynomial(N), *dec = new_TorusPolynomial(N);
    TLweSample *c = new_TLweSample(P);
    int nkeys = thorough ? 3 : 2;
    TLweKey *K = new_TLweKey(P);     // one key object, re-generated in place after use
    for (int kk = 0; kk < nkeys; kk++) {
        tLweKeyGen(K);
        if (kk) out.cell("tlwe:key-object-regenerated-in-place");
        for (int32_t M: Ms) {
            double amax = 1.0 / (20.0 * M);
            // the whole decoding interval of every message: a noiseless encryption whose body is then moved by a prescribed error, one
            // per coefficient, spread over (-1/2M, 1/2M) with both ends approached to within a few units (the message must come back)
            { std::vector<int32_t> mm(N); const double halfw = 4294967296.0 / (2.0 * M);
              for (int j = 0; j < N; j++) { mm[j] = (int32_t) rng.below(M); msg->coefsT[j] = modSwitchToTorus32(mm[j], M); }
              VH_OP("tLweSymDecrypt:prescribed-errors:k=%d:M=%d", k, M);
              tLweSymEncrypt(c, msg, 0., K);
              std::vector<int32_t> errs(N);
              for (int j = 0; j < N; j++) { double f = j < 16 ? (j & 1 ? 1 : -1) * (1.0 - (4.0 + j) / halfw) : (j < 600 ? ((double) j / 300.0 - 1.0) * 0.995 : (rng.unit() * 2 - 1) * 0.995);
                  if (halfw < 64) f *= 0.5; errs[j] = (int32_t) (f * (halfw - 3 * k - 2)); c->b->coefsT[j] += errs[j]; }
              tLweSymDecrypt(dec, c, K, M);
              out.evaluations++;
              for (int j = 0; j < N; j++) if (dec->coefsT[j] != msg->coefsT[j]) {
                  out.viol("decrypt:tlwe-polynomial", J().i("k", k).i("Msize", M).i("coef", j).i("message", mm[j]).s("noise", "prescribed inside the decoding interval").d("error_over_half_interval", errs[j] / halfw).i("decrypted", dec->coefsT[j]).i("encoded", msg->coefsT[j])); break; }
              // the constant-message pair
              for (int q = 0; q < 40; q++) { int32_t m = (int32_t) rng.below(M); Torus32 mu = modSwitchToTorus32(m, M); tLweSymEncryptT(c, mu, 0., K);
                  int32_t e = (int32_t) ((q < 4 ? (q & 1 ? 1 : -1) * (1.0 - 6.0 / halfw) : (rng.unit() * 2 - 1) * 0.995) * (halfw < 64 ? 0.5 : 1.0) * (halfw - 3 * k - 2)); c->b->coefsT[0] += e;
                  out.evaluations++;
                  if (tLweSymDecryptT(c, K, M) != mu) { out.viol("decrypt:tlwe-constant", J().i("k", k).i("Msize", M).i("message", m).s("noise", "prescribed inside the decoding interval").d("error_over_half_interval", e / halfw)); break; } }
              char c3[96]; snprintf(c3, sizeof c3, "tlwe:k=%d:M=%d:prescribed-errors-over-the-decoding-interval", k, M); out.cell(c3); }
            for (int ac = 0; ac < 5; ac++) {
                double alpha = pick_alpha(ac, amax);
                // constant messages
                std::vector<int32_t> ms = messages(M, 4); if (!thorough && ms.size() > 8) ms.resize(8);
                for (int32_t m: ms) {
                    Torus32 mu = modSwitchToTorus32(m, M);
                    VH_OP("tLweSymEncryptT/DecryptT:k=%d:M=%d", k, M);
                    tLweSymEncryptT(c, mu, alpha, K);
                    Torus32 d = tLweSymDecryptT(c, K, M);
                    out.evaluations++;
                    if (d != mu) out.viol("decrypt:tlwe-constant", J().i("k", k).i("Msize", M).i("message", m).d("alpha", alpha).i("decrypted", d).i("encoded", mu));
                }
                // polynomial messages: every coefficient
                for (int rep = 0; rep < (thorough ? 3 : 1); rep++) {
                    std::vector<int32_t> mm(N);
                    for (int j = 0; j < N; j++) { mm[j] = rep == 0 ? (int32_t) (j % M) : (int32_t) rng.below(M); msg->coefsT[j] = modSwitchToTorus32(mm[j], M); }
                    VH_OP("tLweSymEncrypt/Decrypt:k=%d:M=%d", k, M);
                    tLweSymEncrypt(c, msg, alpha, K);
                    { // the library's phase is the exact phase up to the FFT rounding of k products with a binary key; the approximation rounds it coefficient-wise
                        std::vector<U> ex; ref_tlwe_phase(ex, c, K->key, N, k); TorusPolynomial *lp = new_TorusPolynomial(N), *ap = new_TorusPolynomial(N);
                        tLwePhase(lp, c, K); tLweApproxPhase(ap, lp, M, N); out.evaluations++;
                        for (int j = 0; j < N; j++) { int32_t d = (int32_t) ((U) lp->coefsT[j] - ex[j]); if (d > 2 * k || d < -2 * k) { out.viol("decrypt:tLwePhase-inexact", J().i("k", k).i("coef", j).i("diff_units", d)); break; }
                            if (ap->coefsT[j] != approxPhase(lp->coefsT[j], M)) { out.viol("decrypt:tLweApproxPhase", J().i("k", k).i("Msize", M).i("coef", j)); break; } }
                        delete_TorusPolynomial(lp); delete_TorusPolynomial(ap); }
                    tLweSymDecrypt(dec, c, K, M);
                    out.evaluations++;
                    for (int j = 0; j < N; j++) if (dec->coefsT[j] != msg->coefsT[j]) {
                        out.viol("decrypt:tlwe-polynomial", J().i("k", k).i("Msize", M).i("coef", j).i("message", mm[j]).d("alpha", alpha).i("decrypted", dec->coefsT[j]).i("encoded", msg->coefsT[j])); break; }
                }
                char cell[96]; snprintf(cell, sizeof cell, "tlwe:k=%d:M=%d:alpha=%s", k, M, acls_name[ac]); out.cell(cell);
            }
        }
    }
    delete_TLweKey(K);
    // trivial TLWE samples under unrelated keys
    for (int rep = 0; rep < 6; rep++) {
        int32_t M = Ms[rep % Ms.size()];
        for (int j = 0; j < N; j++) msg->coefsT[j] = modSwitchToTorus32((int32_t) rng.below(M), M);
        tLweNoiselessTrivial(c, msg, P);
        for (int kk = 0; kk < 2; kk++) {
            TLweKey *K = new_TLweKey(P); tLweKeyGen(K);
            tLweSymDecrypt(dec, c, K, M);
            out.evaluations++;
            for (int j = 0; j < N; j++) if (dec->coefsT[j] != msg->coefsT[j]) { out.viol("decrypt:tlwe-trivial", J().i("k", k).i("Msize", M).i("coef", j)); break; }
            delete_TLweKey(K);
        }
    }
    { char cell[64]; snprintf(cell, sizeof cell, "tlwe-trivial:k=%d", k); out.cell(cell); }
    delete_TLweSample(c); delete_TorusPolynomial(dec); delete_TorusPolynomial(msg); delete_TLweParams(P);
}

static void tgsw_part(int k, int l, int Bgbit, bool thorough) {
    const int N = 1024;
    TLweParams *TP = new_TLweParams(N, k, 1e-9, 0.25);
    TGswParams *P = new_TGswParams(l, Bgbit, TP);
    TGswKey *K = new_TGswKey(P); tGswKeyGen(K);
    TGswSample *c = new_TGswSample(P);
    IntPolynomial *msg = new_IntPolynomial(N), *dec = new_IntPolynomial(N);
    int Bg = 1 << Bgbit;
    for (int lgM = 1; lgM <= Bgbit; lgM += (thorough ? 1 : (Bgbit > 4 ? 3 : 1))) {
        int32_t M = 1 << lgM;
        if (lgM > 1) { tGswKeyGen(K); out.cell("tgsw:key-object-regenerated-in-place"); }     // the same key object holds its next key
        // row noise is multiplied by the digit Bg/M of 1/M: (Bg/M) alpha <= 1/(20 M)
        double amax = 1.0 / (20.0 * Bg);
        for (int ac = 0; ac < 5; ac++) {
            double alpha = pick_alpha(ac, amax);
            for (int rep = 0; rep < (thorough ? 3 : 2); rep++) {
                for (int j = 0; j < N; j++) msg->coefs[j] = rep == 0 ? (int32_t) (j % M) : rep == 1 ? (int32_t) rng.below(M) : (int32_t) rng.below(M) - M;  // negative representatives too
                VH_OP("tGswSymEncrypt/Decrypt:k=%d:l=%d:Bgbit=%d:M=%d", k, l, Bgbit, M);
                tGswSymEncrypt(c, msg, alpha, K);
                tGswSymDecrypt(dec, c, K, M);
                out.evaluations++;
                for (int j = 0; j < N; j++) if (dec->coefs[j] != ((msg->coefs[j] % M) + M) % M) {
                    out.viol("decrypt:tgsw-polynomial", J().i("k", k).i("l", l).i("Bgbit", Bgbit).i("Msize", M).i("coef", j).i("message", msg->coefs[j]).i("decrypted", dec->coefs[j]).d("alpha", alpha)); break; }
            }
            // integer messages
            for (int32_t m: {0, 1, M / 2, M - 1}) {
                tGswSymEncryptInt(c, m, alpha, K);
                tGswSymDecrypt(dec, c, K, M);
                out.evaluations++;
                bool ok = dec->coefs[0] == m % M; for (int j = 1; j < N && ok; j++) ok = dec->coefs[j] == 0;
                if (!ok) out.viol("decrypt:tgsw-int", J().i("k", k).i("l", l).i("Bgbit", Bgbit).i("Msize", M).i("message", m).i("decrypted0", dec->coefs[0]).d("alpha", alpha));
            }
            char cell[96]; snprintf(cell, sizeof cell, "tgsw:k=%d:l=%d:Bg=%d:M=%d:alpha=%s", k, l, Bgbit, M, acls_name[ac]); out.cell(cell);
        }
        // trivial TGSW sample under unrelated keys
        for (int j = 0; j < N; j++) msg->coefs[j] = (int32_t) rng.below(M);
        tGswNoiselessTrivial(c, msg, P);
        for (int kk = 0; kk < 2; kk++) {
            TGswKey *K2 = new_TGswKey(P); tGswKeyGen(K2);
            tGswSymDecrypt(dec, c, K2, M);
            out.evaluations++;
            for (int j = 0; j < N; j++) if (dec->coefs[j] != msg->coefs[j]) { out.viol("decrypt:tgsw-trivial", J().i("k", k).i("l", l).i("Bgbit", Bgbit).i("Msize", M).i("coef", j)); break; }
            delete_TGswKey(K2);
        }
    }
    { char cell[64]; snprintf(cell, sizeof cell, "tgsw-trivial:k=%d:l=%d:Bg=%d", k, l, Bgbit); out.cell(cell); }
    delete_IntPolynomial(dec); delete_IntPolynomial(msg); delete_TGswSample(c); delete_TGswKey(K); delete_TGswParams(P); delete_TLweParams(TP);
}

static void gate_part(int lambda, int reps) {
    TFheGateBootstrappingParameterSet *p = default_params(lambda);
    TFheGateBootstrappingSecretKeySet *sk = new_random_gate_bootstrapping_secret_keyset(p);
    LweSample *c = new_gate_bootstrapping_ciphertext(p);
    for (int i = 0; i < reps; i++) for (int b = 0; b < 2; b++) {
        VH_OP("bootsSymEncrypt/Decrypt:%d", lambda);
        bootsSymEncrypt(c, b, sk);
        out.evaluations++;
        if (bootsSymDecrypt(c, sk) != b) out.viol("decrypt:gate-api", J().i("lambda", lambda).i("bit", b));
        // any non-zero int is "true"
        if (i == 0) { bootsSymEncrypt(c, b ? 77 : 0, sk); if (bootsSymDecrypt(c, sk) != b) out.viol("decrypt:gate-api", J().i("lambda", lambda).i("bit", b).s("note", "non-zero int as true")); }
    }
    // the whole decision region of each bit: the phase of a gate ciphertext of bit b may sit anywhere within 1/8 of +-1/8 (strictly);
    // prescribed phase errors on a grid over (-1/8, 1/8), dense near both ends, plus the exact extremes +-(1/8 - 1 ulp)
    { std::vector<int64_t> errs; const int64_t E = 1ll << 29;
      for (int i = -200; i <= 200; i++) errs.push_back((int64_t) ((double) i / 201.0 * (double) E));
      for (int64_t d = 1; d <= 4096; d *= 2) { errs.push_back(E - d); errs.push_back(-E + d); }
      for (int t = 0; t < 300; t++) errs.push_back(rng.range(-E + 1, E - 1));
      for (int b = 0; b < 2; b++) for (int64_t e: errs) {
          bootsSymEncrypt(c, b, sk); inject_phase(c, b, e, sk);
          VH_OP("bootsSymDecrypt:prescribed-phase:%d", lambda);
          out.evaluations++;
          if (bootsSymDecrypt(c, sk) != b) { out.viol("decrypt:gate-api", J().i("lambda", lambda).i("bit", b).d("phase_error_over_torus", (double) e / 4294967296.0).s("note", "phase prescribed inside the bit's decision region")); break; }
      }
      char c2[64]; snprintf(c2, sizeof c2, "gate-api:%dbit:prescribed-phases-over-the-decision-region", lambda <= 80 ? 80 : 128); out.cell(c2, 2 * errs.size()); }
    char cell[64]; snprintf(cell, sizeof cell, "gate-api:%dbit", lambda <= 80 ? 80 : 128); out.cell(cell);
    delete_gate_bootstrapping_ciphertext(c); delete_gate_bootstrapping_secret_keyset(sk); delete_gate_bootstrapping_parameters(p);
}

int main(int argc, char **argv) {
    Args args(argc, argv);
    out.open(args.s("out", "-"));
    install_crash_handler();
    uint64_t seed = args.i("seed", 1);
    bool thorough = args.s("tier", "quick") == "thorough";
    std::string part = args.s("part", "lwe");
    rng.reseed(seed * 1000003ull + fnv1a(part.data(), part.size()) % 997);
    seed_library(seed * 3 + fnv1a(part.data(), part.size()) % 997);
    if (part == "lwe") { lwe_part(thorough); out.sample(J().s("part", "lwe").s("n", "1,2,7,8,9,16,500,630,1024").s("Msize", "2,3,4,5,7,8,16,100,1000,1024,2^12,2^16,2^20").s("alpha_classes", "tiny,2^-30,log-uniform,1/(20 Msize),exactly 0")); }
    else if (part == "tlwe") { tlwe_part(args.i("k", 1), thorough); out.sample(J().s("part", "tlwe").i("k", args.i("k", 1)).s("messages", "constant and polynomial (all 1024 coefficients)")); }
    else if (part == "tgsw") { tgsw_part(args.i("k", 1), args.i("l", 3), args.i("Bgbit", 7), thorough); out.sample(J().s("part", "tgsw").i("k", args.i("k", 1)).i("l", args.i("l", 3)).i("Bgbit", args.i("Bgbit", 7))); }
    else if (part == "gate") { gate_part(80, thorough ? 2000 : 300); gate_part(128, thorough ? 2000 : 300); out.sample(J().s("part", "gate-api").s("sets", "80-bit and 128-bit defaults")); }
    out.finish();
    return 0;
}
