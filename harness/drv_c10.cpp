// C10: FFT products equal the exact negacyclic product within 2 units (|a| <= 2^9), error at most linear in |a| above;
//      transforms mutually inverse within 1 unit; Lagrange-domain add / multiply-add / clear / constants commute.
// One process per (integer class, B) so that an abort inside a back-end is attributed to its cell.
#include "vh.hpp"
#include "heap_phase.hpp"
VH_MAIN_GLOBALS
using namespace vh;

static Rng rng;
static const int N = 1024;
static const char *icls_name[] = {"random", "allmax", "alternate", "spike", "sparse", "square-wave", "tone", "constant-or-zero"};
static const char *tcls_name[] = {"random", "allmax", "alternate", "spikes", "square-wave", "tone"};
// narrow-band inputs: all the energy of an operand at one frequency of the negacyclic transform (and its odd harmonics for the
// square waves), at full amplitude; the torus operand of the same case uses the same frequency so that the product does too
static int cur_period = 4, cur_freq = 1, cur_shift = 0;

static void fill_int(int32_t *a, int cls, int64_t B) {
    switch (cls) {
        case 0: for (int i = 0; i < N; i++) a[i] = (int32_t) rng.range(-B, B); break;
        case 1: for (int i = 0; i < N; i++) a[i] = (int32_t) B; break;
        case 2: for (int i = 0; i < N; i++) a[i] = (int32_t) ((i & 1) ? -B : B); break;
        case 3: for (int i = 0; i < N; i++) a[i] = 0; a[rng.below(N)] = (int32_t) ((rng.coin() ? B : -B) + (B > (1 << 20) ? (rng.coin() ? 1 : -3) : 0)); break;   // above 2^20: not a power of two
        case 4: for (int i = 0; i < N; i++) a[i] = rng.below(2) ? (int32_t) B : 0; break;   // binary key pattern scaled by B
        case 7: { static int turn7 = 0; const int64_t cs[] = {0, 1, -1, B, -B, 2, 0, B - 1};      // the zero polynomial and constants (degree 0)
                  for (int i = 0; i < N; i++) a[i] = 0; a[0] = (int32_t) cs[turn7++ % 8]; break; }
        case 5: { static int turn = 0; cur_period = 2 << (turn++ % 10); } cur_shift = (int) rng.below(cur_period);      // +,..,+,-,..,- with period 2,4,..,1024
                for (int i = 0; i < N; i++) a[i] = (int32_t) ((((i + cur_shift) % cur_period) < cur_period / 2) ? B : -B); break;
        case 6: cur_freq = 2 * (int) rng.below(N) + 1; cur_shift = (int) rng.below(2 * N);     // B cos(pi f (i+s)/N), f odd: a single frequency
                for (int i = 0; i < N; i++) a[i] = (int32_t) llround((double) B * cos(M_PI * cur_freq * (double) (i + cur_shift) / N)); break;
    }
}
static void fill_torus(int32_t *b, int cls) {
    switch (cls) {
        case 0: for (int i = 0; i < N; i++) b[i] = rng.i32(); break;
        case 1: for (int i = 0; i < N; i++) b[i] = INT32_MAX; break;
        case 2: for (int i = 0; i < N; i++) b[i] = (i & 1) ? INT32_MIN : INT32_MAX; break;
        case 3: for (int i = 0; i < N; i++) b[i] = 0; for (int t = 0; t < 3; t++) b[rng.below(N)] = rng.coin() ? INT32_MIN : INT32_MAX; break;
        case 4: { int sh = (int) rng.below(cur_period); for (int i = 0; i < N; i++) b[i] = (((i + sh) % cur_period) < cur_period / 2) ? INT32_MAX : INT32_MIN; break; }
        case 5: { int sh = (int) rng.below(2 * N); for (int i = 0; i < N; i++) b[i] = (int32_t) llround(2147483647.0 * cos(M_PI * cur_freq * (double) (i + sh) / N)); break; }
    }
}

static int64_t worst = 0;
static std::map<std::string, int64_t> worst_by_op;

static void compare(const char *op, int icls, int lgB, int tcls, const int32_t *got, const std::vector<U> &want, int64_t tol, const char *extra = "") {
    int64_t mx = 0; int at = -1;
    for (int i = 0; i < N; i++) { int64_t d = iabs64((int64_t) sdiff((U) got[i], want[i])); if (d > mx) { mx = d; at = i; } }
    out.evaluations++;
    if (mx > worst_by_op[op]) worst_by_op[op] = mx;
    if (mx > tol) {
        char key[96]; snprintf(key, sizeof key, "fft-error:%s:%s", op, lgB <= 9 ? "B<=2^9" : "B>2^9");
        out.viol(key, J().s("op", op).s("int_class", icls >= 0 ? icls_name[icls] : "-").i("log2B", lgB).s("torus_class", tcls >= 0 ? tcls_name[tcls] : "-")
                .i("max_abs_error_units", mx).i("tolerance_units", tol).i("coef", at).u("got", (U) got[at]).u("exact", want[at]).s("extra", extra));
    }
}

int main(int argc, char **argv) {
    Args args(argc, argv);
    out.open(args.s("out", "-"));
    install_crash_handler();
    uint64_t seed = args.i("seed", 1);
    int icls = args.i("icls", 0), lgB = args.i("lgB", 9), reps = args.i("reps", 4);
    const char *tag = args.s("tag", "").c_str();
    std::string tags = args.s("tag", "");
    int64_t B = 1ll << lgB;
    if (icls == 5 && reps < 10) reps = 10;
    if (icls == 7 && reps < 8) reps = 8;          // each of the eight constants against every torus class      // every period 2,4,..,1024 against every torus class
    int64_t tolP = lgB <= 9 ? 2 : 2 * (B >> 9);
    rng.reseed(seed * 1000003ull + icls * 31 + lgB);
    // where the allocator places the polynomials and the library's temporaries modulo 32 (16 is all that is guaranteed)
    { int hp = args.i("heapphase", -1); set_heap_phase(hp); out.cell(hp < 0 ? "heap:as-malloc-places-it" : hp == 0 ? "heap:blocks-at-0-mod-32" : hp == 16 ? "heap:blocks-at-16-mod-32" : "heap:blocks-spread-over-distant-regions"); }
    IntPolynomial *a = new_IntPolynomial(N);
    TorusPolynomial *b = new_TorusPolynomial(N), *r = new_TorusPolynomial(N), *r0 = new_TorusPolynomial(N);
    LagrangeHalfCPolynomial *la = new_LagrangeHalfCPolynomial(N), *lb = new_LagrangeHalfCPolynomial(N), *lc = new_LagrangeHalfCPolynomial(N);
    std::vector<U> exact, want(N);
    char cell[128];
    for (int tcls = 0; tcls < 6; tcls++) {
        for (int rep = 0; rep < reps; rep++) {
            fill_int(a->coefs, icls, B); fill_torus(b->coefsT, tcls);
            ref_negacyclic(exact, a->coefs, b->coefsT, N);
            VH_OP("fftprod:%s:torusPolynomialMultFFT:%s:lgB=%d:%s", tags.c_str(), icls_name[icls], lgB, tcls_name[tcls]);
            for (int i = 0; i < N; i++) r->coefsT[i] = rng.i32();
            torusPolynomialMultFFT(r, a, b);
            compare("torusPolynomialMultFFT", icls, lgB, tcls, r->coefsT, exact, tolP);
            for (int i = 0; i < N; i++) r0->coefsT[i] = rng.i32();
            VH_OP("fftprod:%s:torusPolynomialAddMulRFFT:%s:lgB=%d:%s", tags.c_str(), icls_name[icls], lgB, tcls_name[tcls]);
            memcpy(r->coefsT, r0->coefsT, 4 * N); torusPolynomialAddMulRFFT(r, a, b);
            for (int i = 0; i < N; i++) want[i] = (U) r0->coefsT[i] + exact[i];
            compare("torusPolynomialAddMulRFFT", icls, lgB, tcls, r->coefsT, want, tolP);
            VH_OP("fftprod:%s:torusPolynomialSubMulRFFT:%s:lgB=%d:%s", tags.c_str(), icls_name[icls], lgB, tcls_name[tcls]);
            memcpy(r->coefsT, r0->coefsT, 4 * N); torusPolynomialSubMulRFFT(r, a, b);
            for (int i = 0; i < N; i++) want[i] = (U) r0->coefsT[i] - exact[i];
            compare("torusPolynomialSubMulRFFT", icls, lgB, tcls, r->coefsT, want, tolP);
            // raw transforms + Lagrange product
            VH_OP("fftprod:%s:ifft*ifft->Mul->fft:%s:lgB=%d:%s", tags.c_str(), icls_name[icls], lgB, tcls_name[tcls]);
            IntPolynomial_ifft(la, a); TorusPolynomial_ifft(lb, b); LagrangeHalfCPolynomialMul(lc, la, lb); TorusPolynomial_fft(r, lc);
            compare("LagrangeHalfCPolynomialMul", icls, lgB, tcls, r->coefsT, exact, tolP);
            // multiply-accumulate / multiply-subtract of T terms in the Lagrange domain
            // T accumulated terms; the back-ends convert through int64, so keep |a|*N*2^31*T below 2^62
            // (beyond that the exact sum is not representable in the transform's output stage: outside the property)
            int T = rep % 2 ? 32 : 4;
            while (T > 1 && lgB + 10 + 31 + (int) log2((double) T) > 61) T /= 2;
            std::vector<U> acc(N, 0), e2;
            VH_OP("fftprod:%s:LagrangeHalfCPolynomialAddMul:%s:lgB=%d:%s", tags.c_str(), icls_name[icls], lgB, tcls_name[tcls]);
            LagrangeHalfCPolynomialClear(lc);
            for (int t = 0; t < T; t++) {
                fill_int(a->coefs, icls, B); fill_torus(b->coefsT, tcls);
                ref_negacyclic(e2, a->coefs, b->coefsT, N);
                IntPolynomial_ifft(la, a); TorusPolynomial_ifft(lb, b);
                if (t % 3 == 2) { LagrangeHalfCPolynomialSubMul(lc, la, lb); for (int i = 0; i < N; i++) acc[i] -= e2[i]; }
                else { LagrangeHalfCPolynomialAddMul(lc, la, lb); for (int i = 0; i < N; i++) acc[i] += e2[i]; }
            }
            TorusPolynomial_fft(r, lc);
            char ex[32]; snprintf(ex, sizeof ex, "T=%d", T);
            compare("LagrangeHalfCPolynomialAddMul/SubMul", icls, lgB, tcls, r->coefsT, acc, tolP * T, ex);
            snprintf(cell, sizeof cell, "product:%s:lgB=%d:%s", icls_name[icls], lgB, tcls_name[tcls]); out.cell(cell);
            // the result / accumulator object is also one of the factors (element-wise operations: every back-end of the unchanged
            // library accepts this, so interchangeable back-ends must all keep accepting it)
            {
                fill_int(a->coefs, icls, B); fill_torus(b->coefsT, tcls);
                ref_negacyclic(exact, a->coefs, b->coefsT, N);
                VH_OP("fftprod:%s:LagrangeHalfCPolynomialMul(result is a factor):%s:lgB=%d:%s", tags.c_str(), icls_name[icls], lgB, tcls_name[tcls]);
                IntPolynomial_ifft(la, a); TorusPolynomial_ifft(lb, b); LagrangeHalfCPolynomialMul(lb, la, lb); TorusPolynomial_fft(r, lb);
                compare("LagrangeHalfCPolynomialMul(result==second factor)", icls, lgB, tcls, r->coefsT, exact, tolP);
                IntPolynomial_ifft(la, a); TorusPolynomial_ifft(lb, b); LagrangeHalfCPolynomialMul(la, la, lb); TorusPolynomial_fft(r, la);
                compare("LagrangeHalfCPolynomialMul(result==first factor)", icls, lgB, tcls, r->coefsT, exact, tolP);
                for (int i = 0; i < N; i++) want[i] = (U) b->coefsT[i] + exact[i];
                IntPolynomial_ifft(la, a); TorusPolynomial_ifft(lb, b); LagrangeHalfCPolynomialAddMul(lb, la, lb); TorusPolynomial_fft(r, lb);
                compare("LagrangeHalfCPolynomialAddMul(accumulator==second factor)", icls, lgB, tcls, r->coefsT, want, tolP + 1);
                for (int i = 0; i < N; i++) want[i] = (U) b->coefsT[i] - exact[i];
                IntPolynomial_ifft(la, a); TorusPolynomial_ifft(lb, b); LagrangeHalfCPolynomialSubMul(lb, la, lb); TorusPolynomial_fft(r, lb);
                compare("LagrangeHalfCPolynomialSubMul(accumulator==second factor)", icls, lgB, tcls, r->coefsT, want, tolP + 1);
                TorusPolynomial_ifft(la, b); TorusPolynomial_ifft(lb, b); LagrangeHalfCPolynomialAddTo(lb, lb); TorusPolynomial_fft(r, lb);
                for (int i = 0; i < N; i++) want[i] = 2 * (U) b->coefsT[i];
                compare("LagrangeHalfCPolynomialAddTo(accumulator==operand)", -1, 0, tcls, r->coefsT, want, 2);
                snprintf(cell, sizeof cell, "product-in-place:%s:lgB=%d:%s", icls_name[icls], lgB, tcls_name[tcls]); out.cell(cell);
            }
        }
        // the operands of the transforms and of the Lagrange-domain operations are inputs: reading a Lagrange polynomial out
        // twice gives the same polynomial, and a polynomial that was multiplied or added stays what it was
        // (several objects, so that both 16- and 32-byte aligned coefficient arrays occur)
        {
            LagrangeHalfCPolynomial *arr = new_LagrangeHalfCPolynomial_array(6, N);
            TorusPolynomial *q1 = new_TorusPolynomial(N), *q2 = new_TorusPolynomial(N);
            for (int o = 0; o < 4; o++) {
                fill_int(a->coefs, icls, B); fill_torus(b->coefsT, tcls);
                uint64_t ha = fnv1a(a->coefs, 4 * N), hb = fnv1a(b->coefsT, 4 * N);
                VH_OP("fftprod:%s:operands-untouched:%s:lgB=%d:%s", tags.c_str(), icls_name[icls], lgB, tcls_name[tcls]);
                IntPolynomial_ifft(arr + o, a); TorusPolynomial_ifft(arr + 4, b);
                if (fnv1a(a->coefs, 4 * N) != ha || fnv1a(b->coefsT, 4 * N) != hb) out.viol("fft-error:ifft-modified-its-source", J().s("int_class", icls_name[icls]).i("log2B", lgB));
                uint64_t h1 = fnv1a(arr[o].data, 8 * N), h4 = fnv1a(arr[4].data, 8 * N);
                LagrangeHalfCPolynomialMul(arr + 5, arr + o, arr + 4);
                TorusPolynomial_fft(q1, arr + 5); TorusPolynomial_fft(q2, arr + 5);        // two read-outs of the same object
                out.evaluations++;
                if (memcmp(q1->coefsT, q2->coefsT, 4 * N)) out.viol("fft-error:second-read-out-differs", J().s("int_class", icls_name[icls]).i("log2B", lgB).s("torus_class", tcls_name[tcls]).i("object", o));
                TorusPolynomial_fft(q1, arr + 4);                                             // read-out of a multiplicand ...
                LagrangeHalfCPolynomialMul(arr + 5, arr + o, arr + 4); TorusPolynomial_fft(q2, arr + 5);   // ... which is then used again
                compare("product-after-read-out-of-an-operand", icls, lgB, tcls, q2->coefsT, (ref_negacyclic(exact, a->coefs, b->coefsT, N), exact), tolP);
                if (fnv1a(arr[o].data, 8 * N) != h1 || fnv1a(arr[4].data, 8 * N) != h4)
                    out.viol("fft-error:lagrange-operand-modified", J().s("int_class", icls_name[icls]).i("log2B", lgB).s("torus_class", tcls_name[tcls]).i("object", o));
            }
            delete_TorusPolynomial(q1); delete_TorusPolynomial(q2); delete_LagrangeHalfCPolynomial_array(6, arr);
        }
        // transform-only identities (independent of the integer operand): done once per torus class in the icls==0 process of each B
        if (icls == 0) {
            for (int rep = 0; rep < reps; rep++) {
                fill_torus(b->coefsT, tcls);
                VH_OP("fftprod:%s:TorusPolynomial_ifft->fft:%s", tags.c_str(), tcls_name[tcls]);
                TorusPolynomial_ifft(lb, b); TorusPolynomial_fft(r, lb);
                for (int i = 0; i < N; i++) want[i] = (U) b->coefsT[i];
                compare("ifft-fft-roundtrip", -1, 0, tcls, r->coefsT, want, 1);
                // add
                TorusPolynomial *q = r0; fill_torus(q->coefsT, (tcls + rep) % 4);
                VH_OP("fftprod:%s:LagrangeHalfCPolynomialAddTo:%s", tags.c_str(), tcls_name[tcls]);
                TorusPolynomial_ifft(la, q); LagrangeHalfCPolynomialAddTo(lb, la); TorusPolynomial_fft(r, lb);
                for (int i = 0; i < N; i++) want[i] = (U) b->coefsT[i] + (U) q->coefsT[i];
                compare("LagrangeHalfCPolynomialAddTo", -1, 0, tcls, r->coefsT, want, 2);
                // constants
                Torus32 mu = rep == 0 ? INT32_MAX : rep == 1 ? INT32_MIN : rng.i32();
                VH_OP("fftprod:%s:LagrangeHalfCPolynomialAddTorusConstant:%s", tags.c_str(), tcls_name[tcls]);
                TorusPolynomial_ifft(lb, b); LagrangeHalfCPolynomialAddTorusConstant(lb, mu); TorusPolynomial_fft(r, lb);
                for (int i = 0; i < N; i++) want[i] = (U) b->coefsT[i]; want[0] += (U) mu;
                compare("LagrangeHalfCPolynomialAddTorusConstant", -1, 0, tcls, r->coefsT, want, 2);
                VH_OP("fftprod:%s:LagrangeHalfCPolynomialSetTorusConstant", tags.c_str());
                LagrangeHalfCPolynomialSetTorusConstant(lb, mu); TorusPolynomial_fft(r, lb);
                want.assign(N, 0); want[0] = (U) mu;
                compare("LagrangeHalfCPolynomialSetTorusConstant", -1, 0, tcls, r->coefsT, want, 1);
                VH_OP("fftprod:%s:LagrangeHalfCPolynomialClear", tags.c_str());
                TorusPolynomial_ifft(lb, b); LagrangeHalfCPolynomialClear(lb); TorusPolynomial_fft(r, lb);
                want.assign(N, 0);
                compare("LagrangeHalfCPolynomialClear", -1, 0, tcls, r->coefsT, want, 0);
            }
            snprintf(cell, sizeof cell, "transforms:%s", tcls_name[tcls]); out.cell(cell);
        }
    }
    (void) tag;
    {
        J w; for (auto &kv: worst_by_op) w.i(kv.first, kv.second);
        out.stat(J().s("kind", "worst-error").s("int_class", icls_name[icls]).i("log2B", lgB).i("tolerance_products", tolP).o("max_abs_error_units", w));
        out.sample(J().s("int_class", icls_name[icls]).i("log2B", lgB).s("torus_classes", "random,allmax(INT32_MAX),alternate(INT32_MIN/MAX),spikes").o("max_abs_error_units", w));
    }
    delete_LagrangeHalfCPolynomial(la); delete_LagrangeHalfCPolynomial(lb); delete_LagrangeHalfCPolynomial(lc);
    delete_TorusPolynomial(r0); delete_TorusPolynomial(r); delete_TorusPolynomial(b); delete_IntPolynomial(a);
    out.finish();
    return 0;
}
