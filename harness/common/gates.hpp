// Gate table shared by the gate-level monitors (C01, C02, C05, C06, C15, C16)
#ifndef VH_GATES_HPP
#define VH_GATES_HPP
#include "vh.hpp"

namespace vh {

enum GateId { G_NAND, G_AND, G_OR, G_XOR, G_XNOR, G_NOR, G_ANDNY, G_ANDYN, G_ORNY, G_ORYN, G_MUX, G_NOT, G_COPY, G_CONSTANT, G_COUNT };

struct GateSpec {
    const char *name; int arity;       // arity 0 = CONSTANT (value passed in "a" as an int)
    // internal linear combination of the two-input bootstrapped gates: konst/8 + ca*a + cb*b  (torus units of 1/8)
    int konst8, ca, cb;
};

static const GateSpec GATES[G_COUNT] = {
        {"NAND",  2, 1,  -1, -1},
        {"AND",   2, -1, 1,  1},
        {"OR",    2, 1,  1,  1},
        {"XOR",   2, 2,  2,  2},
        {"XNOR",  2, -2, -2, -2},
        {"NOR",   2, -1, -1, -1},
        {"ANDNY", 2, -1, -1, 1},
        {"ANDYN", 2, -1, 1,  -1},
        {"ORNY",  2, 1,  -1, 1},
        {"ORYN",  2, 1,  1,  -1},
        {"MUX",   3, 0,  0,  0},
        {"NOT",   1, 0,  0,  0},
        {"COPY",  1, 0,  0,  0},
        {"CONSTANT", 0, 0, 0, 0},
};

inline int gate_truth(int g, int a, int b, int c) {
    switch (g) {
        case G_NAND: return !(a && b);
        case G_AND: return a && b;
        case G_OR: return a || b;
        case G_XOR: return a ^ b;
        case G_XNOR: return !(a ^ b);
        case G_NOR: return !(a || b);
        case G_ANDNY: return (!a) && b;
        case G_ANDYN: return a && (!b);
        case G_ORNY: return (!a) || b;
        case G_ORYN: return a || (!b);
        case G_MUX: return a ? b : c;
        case G_NOT: return !a;
        case G_COPY: return a;
        case G_CONSTANT: return a;
    }
    return -1;
}

inline void gate_eval(int g, LweSample *r, const LweSample *a, const LweSample *b, const LweSample *c, int constant,
                      const TFheGateBootstrappingCloudKeySet *ck) {
    switch (g) {
        case G_NAND: bootsNAND(r, a, b, ck); break;
        case G_AND: bootsAND(r, a, b, ck); break;
        case G_OR: bootsOR(r, a, b, ck); break;
        case G_XOR: bootsXOR(r, a, b, ck); break;
        case G_XNOR: bootsXNOR(r, a, b, ck); break;
        case G_NOR: bootsNOR(r, a, b, ck); break;
        case G_ANDNY: bootsANDNY(r, a, b, ck); break;
        case G_ANDYN: bootsANDYN(r, a, b, ck); break;
        case G_ORNY: bootsORNY(r, a, b, ck); break;
        case G_ORYN: bootsORYN(r, a, b, ck); break;
        case G_MUX: bootsMUX(r, a, b, c, ck); break;
        case G_NOT: bootsNOT(r, a, ck); break;
        case G_COPY: bootsCOPY(r, a, ck); break;
        case G_CONSTANT: bootsCONSTANT(r, constant, ck); break;
    }
}

// process history: a key set of a custom parameter set (every dimension and decomposition different from the default sets) is
// generated and all bootstrapped gates are evaluated with it, before the workload proper. Nothing the library derives from the
// first parameters it sees may leak into later evaluations with other parameters.
inline void history_other_parameter_set(Rng &rng) {
    PSet ps(10 + (int) rng.below(5), 1024, 1, 4, 6, 5, 3, ldexp(1., -20), ldexp(1., -30));
    VH_OP("history:other-parameter-set:keygen");
    TFheGateBootstrappingSecretKeySet *sk = new_random_gate_bootstrapping_secret_keyset(ps.gb);
    LweSample *x = new_gate_bootstrapping_ciphertext_array(4, ps.gb);
    for (int g = 0; g <= G_MUX; g++) for (int v = 0; v < 8; v++) {
        if (GATES[g].arity < 3 && (v & 4)) continue;
        for (int i = 0; i < 3; i++) bootsSymEncrypt(x + i, (v >> i) & 1, sk);
        VH_OP("history:other-parameter-set:boots%s", GATES[g].name);
        gate_eval(g, x + 3, x, x + 1, x + 2, v & 1, &sk->cloud);
        out.evaluations++;
        if (bootsSymDecrypt(x + 3, sk) != gate_truth(g, v & 1, (v >> 1) & 1, (v >> 2) & 1))
            out.viol(std::string("gate:wrong-output:") + GATES[g].name, J().s("gate", GATES[g].name).s("config", "custom " + ps.name() + " (used first in the process)").i("a", v & 1).i("b", (v >> 1) & 1).i("c", (v >> 2) & 1));
    }
    delete_gate_bootstrapping_ciphertext_array(4, x); delete_gate_bootstrapping_secret_keyset(sk);
    out.cell("history:custom-parameter-set-used-first-in-this-process");
}

static const U ONE_EIGHTH = 1u << 29;

// exact phase under the LWE secret key of a key set
inline U sk_phase(const LweSample *c, const TFheGateBootstrappingSecretKeySet *sk) {
    return ref_lwe_phase(c, sk->lwe_key->key, sk->params->in_out_params->n);
}
// signed phase error relative to the encoding of bit: phase - (+-1/8), in torus units (double)
inline double phase_error(const LweSample *c, int bit, const TFheGateBootstrappingSecretKeySet *sk) {
    U ph = sk_phase(c, sk);
    U want = bit ? ONE_EIGHTH : (U) 0 - ONE_EIGHTH;
    return (double) (int32_t) (ph - want) / 4294967296.0;
}
// set the phase of an existing sample to exactly encode(bit) + err (err in units of 2^-32)
inline void inject_phase(LweSample *c, int bit, int64_t err_units, const TFheGateBootstrappingSecretKeySet *sk) {
    U ph = sk_phase(c, sk);
    U target = (bit ? ONE_EIGHTH : (U) 0 - ONE_EIGHTH) + (U) (int32_t) err_units;
    c->b = (int32_t) ((U) c->b - ph + target);
}

// the documented default sets by security level, or a custom small set
inline TFheGateBootstrappingParameterSet *default_params(int lambda) { return new_default_gate_bootstrapping_parameters(lambda); }

// harness prediction of a two-input gate from the input ciphertexts: exact linear combination, own rounding, own key arithmetic
// returns predicted output bit; *tie set if the prediction sits on an exact rounding tie
inline int predict_binary_gate(int g, const LweSample *a, const LweSample *b, const TFheGateBootstrappingSecretKeySet *sk, int *p_out = nullptr) {
    const GateSpec &s = GATES[g];
    const int n = sk->params->in_out_params->n, N = sk->params->tgsw_params->tlwe_params->N;
    const int32_t *key = sk->lwe_key->key;
    int64_t S = 0;
    for (int i = 0; i < n; i++) {
        U ai = (U) s.ca * (U) a->a[i] + (U) s.cb * (U) b->a[i];
        if (key[i]) S += ref_modswitch(ai, 2 * N);
    }
    U bb = (U) s.konst8 * ONE_EIGHTH + (U) s.ca * (U) a->b + (U) s.cb * (U) b->b;
    int64_t barb = ref_modswitch(bb, 2 * N);
    int p = (int) (((barb - S) % (2 * N) + 2 * N) % (2 * N));
    if (p_out) *p_out = p;
    return p < N ? 1 : 0;
}

} // namespace vh
#endif
