// Uniform access to every export/import pair of tfhe_io.h (used by C05, C17, C18)
#ifndef VH_IOKINDS_HPP
#define VH_IOKINDS_HPP
#include "vh.hpp"
#include <sstream>
#include <memory>
#include <thread>
#include <fstream>

namespace vh {

enum Transport { T_STREAM = 0, T_FILE = 1 };

// random parameter generation -------------------------------------------------------------------------------
struct IoGen {
    Rng &rng;
    explicit IoGen(Rng &r) : rng(r) {}
    double alpha() {
        static const double defaults[] = {ldexp(1., -15), ldexp(1., -25), 2.44e-5, 7.18e-9, 0.012467, 1e-12, 0.5, 0.25, 3.0517578125e-05};
        // boundary and awkward reals: exactly 0, the smallest denormal and normal numbers, values needing all 17 digits,
        // values whose decimal text is long, large values
        static const double awkward[] = {0.0, 4.9406564584124654e-324, 2.2250738585072014e-308, 1e-300, 0.30000000000000004, 0.1, 1.0 / 3.0, 0.49999999999999994,
                                         1.0, 123456789.12345679, 1e300, 1.7976931348623157e308, 5e-5, 9.9999999999999995e-8};
        int r = rng.below(4);
        if (r == 3) return awkward[rng.below(14)];
        if (r == 0) return defaults[rng.below(9)];
        return exp(log(1e-12) + rng.unit() * (log(0.5) - log(1e-12)));   // log-uniform in [1e-12, 0.5]
    }
    int32_t coef(int cls) {
        switch (cls) { case 0: return rng.i32(); case 1: return 0; case 2: return -1; case 3: return INT32_MIN; default: return INT32_MAX; }
    }
    double variance() { int r = rng.below(4); return r == 0 ? 0.0 : r == 1 ? pow(alpha(), 2) : r == 2 ? 1e-300 : rng.unit(); }
};

struct Bytes { std::string s; };

// capture helpers ---------------------------------------------------------------------------------------------
template<class F> std::string to_stream_bytes(F f) { std::ostringstream os(std::ios::binary); f(os); return os.str(); }
template<class F> std::string to_file_bytes(F f) {
    char *buf = nullptr; size_t len = 0; FILE *fp = open_memstream(&buf, &len); f(fp); fclose(fp);
    std::string s(buf, len); free(buf); return s;
}

// a FILE* opened in append mode on a fresh temporary file (writes always go to the end, seeking back cannot overwrite)
template<class F> std::string to_append_file_bytes(F f) {
    char path[] = "/tmp/vh-io-XXXXXX"; int fd = mkstemp(path); if (fd < 0) { perror("mkstemp"); exit(2); } close(fd);
    FILE *fp = fopen(path, "ab"); f(fp); fclose(fp);
    std::string s; FILE *r = fopen(path, "rb"); char buf[65536]; size_t n; while ((n = fread(buf, 1, sizeof buf, r)) > 0) s.append(buf, n); fclose(r); unlink(path);
    return s;
}
// a FILE* on a pipe (not seekable), drained by a reader thread
template<class F> std::string to_pipe_bytes(F f) {
    int pfd[2]; if (pipe(pfd)) { perror("pipe"); exit(2); }
    std::string s;
    std::thread reader([&] { char buf[65536]; ssize_t n; while ((n = read(pfd[0], buf, sizeof buf)) > 0) s.append(buf, n); close(pfd[0]); });
    FILE *fp = fdopen(pfd[1], "wb"); f(fp); fclose(fp);
    reader.join();
    return s;
}

static inline bool deq(double a, double b) { return memcmp(&a, &b, 8) == 0; }

// field-for-field comparison; returns "" when equal, else the name of the first differing field
inline std::string cmp_LweParams(const LweParams *a, const LweParams *b) {
    if (a->n != b->n) return "LweParams.n";
    if (!deq(a->alpha_min, b->alpha_min)) return "real:LweParams.alpha_min";
    if (!deq(a->alpha_max, b->alpha_max)) return "real:LweParams.alpha_max";
    return "";
}
inline std::string cmp_LweSample(const LweSample *a, const LweSample *b, int n, bool var = true) {
    if (memcmp(a->a, b->a, 4 * n)) return "LweSample.a";
    if (a->b != b->b) return "LweSample.b";
    if (var && !deq(a->current_variance, b->current_variance)) return "LweSample.current_variance";
    return "";
}
inline std::string cmp_TLweParams(const TLweParams *a, const TLweParams *b) {
    if (a->N != b->N) return "TLweParams.N";
    if (a->k != b->k) return "TLweParams.k";
    if (!deq(a->alpha_min, b->alpha_min)) return "real:TLweParams.alpha_min";
    if (!deq(a->alpha_max, b->alpha_max)) return "real:TLweParams.alpha_max";
    std::string e = cmp_LweParams(&a->extracted_lweparams, &b->extracted_lweparams);
    return e.empty() ? "" : e + "(extracted)";
}
inline std::string cmp_TLweSample(const TLweSample *a, const TLweSample *b, int N, bool var = true) {
    if (a->k != b->k) return "TLweSample.k";
    for (int i = 0; i <= a->k; i++) if (memcmp(a->a[i].coefsT, b->a[i].coefsT, 4 * N)) return "TLweSample.a";
    if (var && !deq(a->current_variance, b->current_variance)) return "TLweSample.current_variance";
    return "";
}
inline std::string cmp_TGswParams(const TGswParams *a, const TGswParams *b) {
    if (a->l != b->l) return "TGswParams.l";
    if (a->Bgbit != b->Bgbit) return "TGswParams.Bgbit";
    if (a->Bg != b->Bg || a->halfBg != b->halfBg || a->maskMod != b->maskMod || a->kpl != b->kpl || a->offset != b->offset) return "TGswParams.derived";
    for (int i = 0; i < a->l; i++) if (a->h[i] != b->h[i]) return "TGswParams.h";
    return cmp_TLweParams(a->tlwe_params, b->tlwe_params);
}
inline std::string cmp_TGswSample(const TGswSample *a, const TGswSample *b, const TGswParams *p, bool var = true) {
    if (a->k != b->k || a->l != b->l) return "TGswSample.k/l";
    for (int r = 0; r < p->kpl; r++) { std::string e = cmp_TLweSample(&a->all_sample[r], &b->all_sample[r], p->tlwe_params->N, var); if (!e.empty()) return e + "(row)"; }
    return "";
}
inline std::string cmp_LweKey(const LweKey *a, const LweKey *b) {
    std::string e = cmp_LweParams(a->params, b->params); if (!e.empty()) return e;
    if (memcmp(a->key, b->key, 4 * a->params->n)) return "LweKey.key";
    return "";
}
inline std::string cmp_TLweKey(const TLweKey *a, const TLweKey *b) {
    std::string e = cmp_TLweParams(a->params, b->params); if (!e.empty()) return e;
    for (int i = 0; i < a->params->k; i++) if (memcmp(a->key[i].coefs, b->key[i].coefs, 4 * a->params->N)) return "TLweKey.key";
    return "";
}
inline std::string cmp_TGswKey(const TGswKey *a, const TGswKey *b) {
    std::string e = cmp_TGswParams(a->params, b->params); if (!e.empty()) return e;
    for (int i = 0; i < a->tlwe_params->k; i++) if (memcmp(a->key[i].coefs, b->key[i].coefs, 4 * a->tlwe_params->N)) return "TGswKey.key";
    if (b->key != b->tlwe_key.key) return "TGswKey.key-alias";
    return "";
}
// key material: the advisory per-row variance is stored once and comes back as the common maximum
inline std::string cmp_KS(const LweKeySwitchKey *a, const LweKeySwitchKey *b) {
    if (a->n != b->n || a->t != b->t || a->basebit != b->basebit || a->base != b->base) return "LweKeySwitchKey.dims";
    std::string e = cmp_LweParams(a->out_params, b->out_params); if (!e.empty()) return e;
    int rows = a->n * a->t * a->base; double mx = -1;
    for (int r = 0; r < rows; r++) if (a->ks0_raw[r].current_variance > mx) mx = a->ks0_raw[r].current_variance;
    for (int r = 0; r < rows; r++) {
        e = cmp_LweSample(&a->ks0_raw[r], &b->ks0_raw[r], a->out_params->n, false); if (!e.empty()) return e + "(ks row)";
        if (!deq(b->ks0_raw[r].current_variance, mx)) return "LweKeySwitchKey.row-variance-not-common-maximum";
    }
    return "";
}
inline std::string cmp_BK(const LweBootstrappingKey *a, const LweBootstrappingKey *b) {
    std::string e = cmp_LweParams(a->in_out_params, b->in_out_params); if (!e.empty()) return e;
    e = cmp_TGswParams(a->bk_params, b->bk_params); if (!e.empty()) return e;
    if (b->accum_params != b->bk_params->tlwe_params || b->extract_params != &b->bk_params->tlwe_params->extracted_lweparams) return "LweBootstrappingKey.param-links";
    e = cmp_KS(a->ks, b->ks); if (!e.empty()) return e;
    int n = a->in_out_params->n, kpl = a->bk_params->kpl; double mx = -1;
    for (int i = 0; i < n; i++) for (int r = 0; r < kpl; r++) if (a->bk[i].all_sample[r].current_variance > mx) mx = a->bk[i].all_sample[r].current_variance;
    for (int i = 0; i < n; i++) {
        e = cmp_TGswSample(&a->bk[i], &b->bk[i], a->bk_params, false); if (!e.empty()) return e + "(bk)";
        for (int r = 0; r < kpl; r++) if (!deq(b->bk[i].all_sample[r].current_variance, mx)) return "LweBootstrappingKey.row-variance-not-common-maximum";
    }
    return "";
}
inline std::string cmp_GBParams(const TFheGateBootstrappingParameterSet *a, const TFheGateBootstrappingParameterSet *b) {
    if (a->ks_t != b->ks_t) return "GateParams.ks_t";
    if (a->ks_basebit != b->ks_basebit) return "GateParams.ks_basebit";
    std::string e = cmp_LweParams(a->in_out_params, b->in_out_params); if (!e.empty()) return e;
    return cmp_TGswParams(a->tgsw_params, b->tgsw_params);
}
inline std::string cmp_Cloud(const TFheGateBootstrappingCloudKeySet *a, const TFheGateBootstrappingCloudKeySet *b) {
    std::string e = cmp_GBParams(a->params, b->params); if (!e.empty()) return e;
    e = cmp_BK(a->bk, b->bk); if (!e.empty()) return e;
    if (!b->bkFFT) return "CloudKeySet.bkFFT-missing";
    e = cmp_KS(a->bk->ks, b->bkFFT->ks); if (!e.empty()) return e + "(bkFFT.ks)";
    return "";
}
inline std::string cmp_Secret(const TFheGateBootstrappingSecretKeySet *a, const TFheGateBootstrappingSecretKeySet *b) {
    std::string e = cmp_Cloud(&a->cloud, &b->cloud); if (!e.empty()) return e;
    e = cmp_LweKey(a->lwe_key, b->lwe_key); if (!e.empty()) return e;
    return cmp_TGswKey(a->tgsw_key, b->tgsw_key);
}


// ------------------------------------------------------------------------------------------------------------------
// registry of serializable kinds: make / export (2 transports) / import (2 transports) / compare
struct Holder {                      // owns whatever make/import produced
    std::vector<std::function<void()>> dtors; void *obj = nullptr; const void *aux = nullptr; const void *aux2 = nullptr;
    ~Holder() { for (auto it = dtors.rbegin(); it != dtors.rend(); ++it) (*it)(); }
};
typedef std::shared_ptr<Holder> HP;

struct Kind {
    std::string name;
    std::function<HP(IoGen &, int)> make;                         // size class 0 = tiny (fault enumeration), 1 = small, 2 = default-like
    std::function<void(std::ostream &, const Holder &)> exp_s;
    std::function<void(FILE *, const Holder &)> exp_f;
    std::function<HP(std::istream &, const Holder &)> imp_s;      // second arg: the original (gives the parameters in-place imports need)
    std::function<HP(FILE *, const Holder &)> imp_f;
    std::function<std::string(const Holder &, const Holder &)> cmp;
};

inline void fill_lwe_sample(IoGen &g, LweSample *s, int n) { int cls = g.rng.below(5); for (int i = 0; i < n; i++) s->a[i] = g.coef(cls); s->b = g.coef(g.rng.below(5)); s->current_variance = g.variance(); }
inline void fill_tlwe_sample(IoGen &g, TLweSample *s, int N, int k) { int cls = g.rng.below(5); for (int i = 0; i <= k; i++) for (int j = 0; j < N; j++) s->a[i].coefsT[j] = g.coef(cls); s->current_variance = g.variance(); }

inline PSet *make_pset(IoGen &g, int sz) {
    int n = sz == 0 ? 2 : 2 + g.rng.below(4), l = sz == 0 ? 1 : 1 + g.rng.below(2), Bgbit = sz == 0 ? 4 : 4 + g.rng.below(7);
    int t = sz == 0 ? 1 : 1 + g.rng.below(2), bb = sz == 0 ? 1 : 1 + g.rng.below(2);
    // these parameter sets are also used to generate keys: noise levels a sampler can be asked for (at most 1/2, 0 included)
    auto a = [&] { double x; do x = g.alpha(); while (x > 0.5); return x; };
    double a1 = a(), a2 = a(), a3 = a();
    return new PSet(n, 1024, 1, l, Bgbit, t, bb, a1, a2, a3);
}

inline std::vector<Kind> io_kinds() {
    std::vector<Kind> K;
    // ---- LweParams
    { Kind k; k.name = "LweParams";
      k.make = [](IoGen &g, int sz) { HP h(new Holder); LweParams *p = new_LweParams(sz == 0 ? 3 : 1 + g.rng.below(2000), g.alpha(), g.alpha()); h->obj = p; h->dtors.push_back([p] { delete_LweParams(p); }); return h; };
      k.exp_s = [](std::ostream &o, const Holder &h) { export_lweParams_toStream(o, (LweParams *) h.obj); };
      k.exp_f = [](FILE *f, const Holder &h) { export_lweParams_toFile(f, (LweParams *) h.obj); };
      k.imp_s = [](std::istream &i, const Holder &) { HP h(new Holder); LweParams *p = new_lweParams_fromStream(i); h->obj = p; if (p) h->dtors.push_back([p] { delete_LweParams(p); }); return h; };
      k.imp_f = [](FILE *f, const Holder &) { HP h(new Holder); LweParams *p = new_lweParams_fromFile(f); h->obj = p; if (p) h->dtors.push_back([p] { delete_LweParams(p); }); return h; };
      k.cmp = [](const Holder &a, const Holder &b) { return cmp_LweParams((LweParams *) a.obj, (LweParams *) b.obj); };
      K.push_back(k); }
    // ---- LweSample (and the gate-API ciphertext, which is the same object under another exporter)
    for (int gate_api = 0; gate_api < 2; gate_api++) {
      Kind k; k.name = gate_api ? "GateCiphertext" : "LweSample";
      k.make = [gate_api](IoGen &g, int sz) { HP h(new Holder);
          if (!gate_api) { LweParams *p = new_LweParams(sz == 0 ? 3 : sz == 3 ? 6000 : 1 + g.rng.below(700), g.alpha(), g.alpha()); LweSample *s = new_LweSample(p); fill_lwe_sample(g, s, p->n);
              h->obj = s; h->aux = p; h->dtors.push_back([p] { delete_LweParams(p); }); h->dtors.push_back([s] { delete_LweSample(s); }); }
          else { PSet *ps = make_pset(g, sz); LweSample *s = new_gate_bootstrapping_ciphertext(ps->gb); fill_lwe_sample(g, s, ps->n);
              h->obj = s; h->aux = ps->lwe; h->aux2 = ps->gb; h->dtors.push_back([ps] { delete ps; }); h->dtors.push_back([s] { delete_gate_bootstrapping_ciphertext(s); }); }
          return h; };
      k.exp_s = [gate_api](std::ostream &o, const Holder &h) { if (gate_api) export_gate_bootstrapping_ciphertext_toStream(o, (LweSample *) h.obj, (const TFheGateBootstrappingParameterSet *) h.aux2); else export_lweSample_toStream(o, (LweSample *) h.obj, (const LweParams *) h.aux); };
      k.exp_f = [gate_api](FILE *f, const Holder &h) { if (gate_api) export_gate_bootstrapping_ciphertext_toFile(f, (LweSample *) h.obj, (const TFheGateBootstrappingParameterSet *) h.aux2); else export_lweSample_toFile(f, (LweSample *) h.obj, (const LweParams *) h.aux); };
      auto imp = [gate_api](std::istream *is, FILE *f, const Holder &like) { HP h(new Holder); const LweParams *p = (const LweParams *) like.aux; LweSample *s = new_LweSample(p);
          for (int i = 0; i < p->n; i++) s->a[i] = 0x5a5a5a5a; s->b = 0x5a5a5a5a; s->current_variance = -7;
          h->aux = like.aux; h->aux2 = like.aux2; h->dtors.push_back([s] { delete_LweSample(s); });
          if (gate_api) { auto gb = (const TFheGateBootstrappingParameterSet *) like.aux2; if (is) import_gate_bootstrapping_ciphertext_fromStream(*is, s, gb); else import_gate_bootstrapping_ciphertext_fromFile(f, s, gb); }
          else { if (is) import_lweSample_fromStream(*is, s, p); else import_lweSample_fromFile(f, s, p); }
          h->obj = s; return h; };
      k.imp_s = [imp](std::istream &i, const Holder &l) { return imp(&i, nullptr, l); };
      k.imp_f = [imp](FILE *f, const Holder &l) { return imp(nullptr, f, l); };
      k.cmp = [](const Holder &a, const Holder &b) { return cmp_LweSample((LweSample *) a.obj, (LweSample *) b.obj, ((const LweParams *) a.aux)->n); };
      K.push_back(k); }
    // ---- LweKey
    { Kind k; k.name = "LweKey";
      k.make = [](IoGen &g, int sz) { HP h(new Holder); LweParams *p = new_LweParams(sz == 0 ? 3 : sz == 3 ? 5000 : 1 + g.rng.below(1200), g.alpha(), g.alpha()); LweKey *key = new_LweKey(p);
          for (int i = 0; i < p->n; i++) key->key[i] = (int32_t) g.rng.below(2); h->obj = key; h->dtors.push_back([p] { delete_LweParams(p); }); h->dtors.push_back([key] { delete_LweKey(key); }); return h; };
      k.exp_s = [](std::ostream &o, const Holder &h) { export_lweKey_toStream(o, (LweKey *) h.obj); };
      k.exp_f = [](FILE *f, const Holder &h) { export_lweKey_toFile(f, (LweKey *) h.obj); };
      k.imp_s = [](std::istream &i, const Holder &) { HP h(new Holder); LweKey *key = new_lweKey_fromStream(i); h->obj = key; if (key) h->dtors.push_back([key] { delete_LweKey(key); }); return h; };
      k.imp_f = [](FILE *f, const Holder &) { HP h(new Holder); LweKey *key = new_lweKey_fromFile(f); h->obj = key; if (key) h->dtors.push_back([key] { delete_LweKey(key); }); return h; };
      k.cmp = [](const Holder &a, const Holder &b) { return cmp_LweKey((LweKey *) a.obj, (LweKey *) b.obj); };
      K.push_back(k); }
    // ---- TLweParams
    { Kind k; k.name = "TLweParams";
      k.make = [](IoGen &g, int sz) { HP h(new Holder); TLweParams *p = new_TLweParams(sz == 0 ? 4 : 1 << g.rng.below(12), 1 + g.rng.below(3), g.alpha(), g.alpha()); h->obj = p; h->dtors.push_back([p] { delete_TLweParams(p); }); return h; };
      k.exp_s = [](std::ostream &o, const Holder &h) { export_tLweParams_toStream(o, (TLweParams *) h.obj); };
      k.exp_f = [](FILE *f, const Holder &h) { export_tLweParams_toFile(f, (TLweParams *) h.obj); };
      k.imp_s = [](std::istream &i, const Holder &) { HP h(new Holder); TLweParams *p = new_tLweParams_fromStream(i); h->obj = p; if (p) h->dtors.push_back([p] { delete_TLweParams(p); }); return h; };
      k.imp_f = [](FILE *f, const Holder &) { HP h(new Holder); TLweParams *p = new_tLweParams_fromFile(f); h->obj = p; if (p) h->dtors.push_back([p] { delete_TLweParams(p); }); return h; };
      k.cmp = [](const Holder &a, const Holder &b) { return cmp_TLweParams((TLweParams *) a.obj, (TLweParams *) b.obj); };
      K.push_back(k); }
    // ---- TLweSample
    { Kind k; k.name = "TLweSample";
      k.make = [](IoGen &g, int sz) { HP h(new Holder); TLweParams *p = new_TLweParams(sz == 0 ? 4 : sz == 3 ? 8192 : 1 << g.rng.below(11), 1 + g.rng.below(2), g.alpha(), g.alpha()); TLweSample *s = new_TLweSample(p);
          fill_tlwe_sample(g, s, p->N, p->k); h->obj = s; h->aux = p; h->dtors.push_back([p] { delete_TLweParams(p); }); h->dtors.push_back([s] { delete_TLweSample(s); }); return h; };
      k.exp_s = [](std::ostream &o, const Holder &h) { export_tlweSample_toStream(o, (TLweSample *) h.obj, (const TLweParams *) h.aux); };
      k.exp_f = [](FILE *f, const Holder &h) { export_tlweSample_toFile(f, (TLweSample *) h.obj, (const TLweParams *) h.aux); };
      auto imp = [](std::istream *is, FILE *f, const Holder &like) { HP h(new Holder); const TLweParams *p = (const TLweParams *) like.aux; TLweSample *s = new_TLweSample(p);
          for (int i = 0; i <= p->k; i++) for (int j = 0; j < p->N; j++) s->a[i].coefsT[j] = 0x5a5a5a5a; s->current_variance = -7;
          h->aux = p; h->dtors.push_back([s] { delete_TLweSample(s); });
          if (is) import_tlweSample_fromStream(*is, s, p); else import_tlweSample_fromFile(f, s, p); h->obj = s; return h; };
      k.imp_s = [imp](std::istream &i, const Holder &l) { return imp(&i, nullptr, l); };
      k.imp_f = [imp](FILE *f, const Holder &l) { return imp(nullptr, f, l); };
      k.cmp = [](const Holder &a, const Holder &b) { return cmp_TLweSample((TLweSample *) a.obj, (TLweSample *) b.obj, ((const TLweParams *) a.aux)->N); };
      K.push_back(k); }
    // ---- TLweKey
    { Kind k; k.name = "TLweKey";
      k.make = [](IoGen &g, int sz) { HP h(new Holder); TLweParams *p = new_TLweParams(sz == 0 ? 4 : sz == 3 ? 4096 : 1 << g.rng.below(11), sz == 3 ? 1 : 1 + g.rng.below(2), g.alpha(), g.alpha()); TLweKey *key = new_TLweKey(p);
          for (int i = 0; i < p->k; i++) for (int j = 0; j < p->N; j++) key->key[i].coefs[j] = (int32_t) g.rng.below(2);
          h->obj = key; h->dtors.push_back([p] { delete_TLweParams(p); }); h->dtors.push_back([key] { delete_TLweKey(key); }); return h; };
      k.exp_s = [](std::ostream &o, const Holder &h) { export_tlweKey_toStream(o, (TLweKey *) h.obj); };
      k.exp_f = [](FILE *f, const Holder &h) { export_tlweKey_toFile(f, (TLweKey *) h.obj); };
      k.imp_s = [](std::istream &i, const Holder &) { HP h(new Holder); TLweKey *key = new_tlweKey_fromStream(i); h->obj = key; if (key) h->dtors.push_back([key] { delete_TLweKey(key); }); return h; };
      k.imp_f = [](FILE *f, const Holder &) { HP h(new Holder); TLweKey *key = new_tlweKey_fromFile(f); h->obj = key; if (key) h->dtors.push_back([key] { delete_TLweKey(key); }); return h; };
      k.cmp = [](const Holder &a, const Holder &b) { return cmp_TLweKey((TLweKey *) a.obj, (TLweKey *) b.obj); };
      K.push_back(k); }
    // ---- TGswParams
    { Kind k; k.name = "TGswParams";
      k.make = [](IoGen &g, int sz) { HP h(new Holder); TLweParams *tp = new_TLweParams(sz == 0 ? 4 : 1 << g.rng.below(11), 1 + g.rng.below(2), g.alpha(), g.alpha());
          int Bgbit = 1 + g.rng.below(16), l = 1 + g.rng.below(32 / Bgbit); TGswParams *p = new_TGswParams(l, Bgbit, tp);
          h->obj = p; h->dtors.push_back([tp] { delete_TLweParams(tp); }); h->dtors.push_back([p] { delete_TGswParams(p); }); return h; };
      k.exp_s = [](std::ostream &o, const Holder &h) { export_tGswParams_toStream(o, (TGswParams *) h.obj); };
      k.exp_f = [](FILE *f, const Holder &h) { export_tGswParams_toFile(f, (TGswParams *) h.obj); };
      k.imp_s = [](std::istream &i, const Holder &) { HP h(new Holder); TGswParams *p = new_tGswParams_fromStream(i); h->obj = p; if (p) h->dtors.push_back([p] { delete_TGswParams(p); }); return h; };
      k.imp_f = [](FILE *f, const Holder &) { HP h(new Holder); TGswParams *p = new_tGswParams_fromFile(f); h->obj = p; if (p) h->dtors.push_back([p] { delete_TGswParams(p); }); return h; };
      k.cmp = [](const Holder &a, const Holder &b) { return cmp_TGswParams((TGswParams *) a.obj, (TGswParams *) b.obj); };
      K.push_back(k); }
    // ---- TGswSample
    { Kind k; k.name = "TGswSample";
      k.make = [](IoGen &g, int sz) { HP h(new Holder); TLweParams *tp = new_TLweParams(sz == 0 ? 4 : 1 << g.rng.below(9), 1 + g.rng.below(2), g.alpha(), g.alpha());
          int Bgbit = 2 + g.rng.below(9), l = 1 + g.rng.below(3); TGswParams *p = new_TGswParams(l, Bgbit, tp); TGswSample *s = new_TGswSample(p);
          for (int r = 0; r < p->kpl; r++) fill_tlwe_sample(g, &s->all_sample[r], tp->N, tp->k);
          h->obj = s; h->aux = p; h->dtors.push_back([tp] { delete_TLweParams(tp); }); h->dtors.push_back([p] { delete_TGswParams(p); }); h->dtors.push_back([s] { delete_TGswSample(s); }); return h; };
      k.exp_s = [](std::ostream &o, const Holder &h) { export_tgswSample_toStream(o, (TGswSample *) h.obj, (const TGswParams *) h.aux); };
      k.exp_f = [](FILE *f, const Holder &h) { export_tgswSample_toFile(f, (TGswSample *) h.obj, (const TGswParams *) h.aux); };
      auto imp = [](std::istream *is, FILE *f, const Holder &like) { HP h(new Holder); const TGswParams *p = (const TGswParams *) like.aux; TGswSample *s = new_TGswSample(p);
          for (int r = 0; r < p->kpl; r++) { for (int i = 0; i <= p->tlwe_params->k; i++) for (int j = 0; j < p->tlwe_params->N; j++) s->all_sample[r].a[i].coefsT[j] = 0x5a5a5a5a; s->all_sample[r].current_variance = -7; }
          h->aux = p; h->dtors.push_back([s] { delete_TGswSample(s); });
          if (is) import_tgswSample_fromStream(*is, s, p); else import_tgswSample_fromFile(f, s, p); h->obj = s; return h; };
      k.imp_s = [imp](std::istream &i, const Holder &l) { return imp(&i, nullptr, l); };
      k.imp_f = [imp](FILE *f, const Holder &l) { return imp(nullptr, f, l); };
      k.cmp = [](const Holder &a, const Holder &b) { return cmp_TGswSample((TGswSample *) a.obj, (TGswSample *) b.obj, (const TGswParams *) a.aux); };
      K.push_back(k); }
    // ---- TGswKey
    { Kind k; k.name = "TGswKey";
      k.make = [](IoGen &g, int sz) { HP h(new Holder); TLweParams *tp = new_TLweParams(sz == 0 ? 4 : sz == 3 ? 4096 : 1 << g.rng.below(11), 1 + g.rng.below(2), g.alpha(), g.alpha());
          TGswParams *p = new_TGswParams(1 + g.rng.below(3), 2 + g.rng.below(9), tp); TGswKey *key = new_TGswKey(p);
          for (int i = 0; i < tp->k; i++) for (int j = 0; j < tp->N; j++) key->key[i].coefs[j] = (int32_t) g.rng.below(2);
          h->obj = key; h->dtors.push_back([tp] { delete_TLweParams(tp); }); h->dtors.push_back([p] { delete_TGswParams(p); }); h->dtors.push_back([key] { delete_TGswKey(key); }); return h; };
      k.exp_s = [](std::ostream &o, const Holder &h) { export_tgswKey_toStream(o, (TGswKey *) h.obj); };
      k.exp_f = [](FILE *f, const Holder &h) { export_tgswKey_toFile(f, (TGswKey *) h.obj); };
      k.imp_s = [](std::istream &i, const Holder &) { HP h(new Holder); TGswKey *key = new_tgswKey_fromStream(i); h->obj = key; if (key) h->dtors.push_back([key] { delete_TGswKey(key); }); return h; };
      k.imp_f = [](FILE *f, const Holder &) { HP h(new Holder); TGswKey *key = new_tgswKey_fromFile(f); h->obj = key; if (key) h->dtors.push_back([key] { delete_TGswKey(key); }); return h; };
      k.cmp = [](const Holder &a, const Holder &b) { return cmp_TGswKey((TGswKey *) a.obj, (TGswKey *) b.obj); };
      K.push_back(k); }
    // ---- LweKeySwitchKey (random content; per-row variances differ on purpose)
    { Kind k; k.name = "LweKeySwitchKey";
      k.make = [](IoGen &g, int sz) { HP h(new Holder); LweParams *p = new_LweParams(sz == 0 ? 2 : 1 + g.rng.below(40), g.alpha(), g.alpha());
          int t = sz == 0 ? 1 : 1 + g.rng.below(4), bb = sz == 0 ? 1 : 1 + g.rng.below(3), n = sz == 0 ? 2 : 1 + g.rng.below(30);
          LweKeySwitchKey *ks = new_LweKeySwitchKey(n, t, bb, p);
          for (int r = 0; r < n * t * (1 << bb); r++) fill_lwe_sample(g, &ks->ks0_raw[r], p->n);
          h->obj = ks; h->dtors.push_back([p] { delete_LweParams(p); }); h->dtors.push_back([ks] { delete_LweKeySwitchKey(ks); }); return h; };
      k.exp_s = [](std::ostream &o, const Holder &h) { export_lweKeySwitchKey_toStream(o, (LweKeySwitchKey *) h.obj); };
      k.exp_f = [](FILE *f, const Holder &h) { export_lweKeySwitchKey_toFile(f, (LweKeySwitchKey *) h.obj); };
      k.imp_s = [](std::istream &i, const Holder &) { HP h(new Holder); LweKeySwitchKey *ks = new_lweKeySwitchKey_fromStream(i); h->obj = ks; if (ks) h->dtors.push_back([ks] { delete_LweKeySwitchKey(ks); }); return h; };
      k.imp_f = [](FILE *f, const Holder &) { HP h(new Holder); LweKeySwitchKey *ks = new_lweKeySwitchKey_fromFile(f); h->obj = ks; if (ks) h->dtors.push_back([ks] { delete_LweKeySwitchKey(ks); }); return h; };
      k.cmp = [](const Holder &a, const Holder &b) { return cmp_KS((LweKeySwitchKey *) a.obj, (LweKeySwitchKey *) b.obj); };
      K.push_back(k); }
    // ---- LweBootstrappingKey (random content)
    { Kind k; k.name = "LweBootstrappingKey";
      k.make = [](IoGen &g, int sz) { HP h(new Holder); PSet *ps = make_pset(g, sz); LweBootstrappingKey *bk = new_LweBootstrappingKey(ps->t, ps->basebit, ps->lwe, ps->tgsw);
          for (int r = 0; r < ps->N * ps->k * ps->t * (1 << ps->basebit); r++) fill_lwe_sample(g, &bk->ks->ks0_raw[r], ps->n);
          for (int i = 0; i < ps->n; i++) for (int r = 0; r < ps->tgsw->kpl; r++) fill_tlwe_sample(g, &bk->bk[i].all_sample[r], ps->N, ps->k);
          h->obj = bk; h->dtors.push_back([ps] { delete ps; }); h->dtors.push_back([bk] { delete_LweBootstrappingKey(bk); }); return h; };
      k.exp_s = [](std::ostream &o, const Holder &h) { export_lweBootstrappingKey_toStream(o, (LweBootstrappingKey *) h.obj); };
      k.exp_f = [](FILE *f, const Holder &h) { export_lweBootstrappingKey_toFile(f, (LweBootstrappingKey *) h.obj); };
      k.imp_s = [](std::istream &i, const Holder &) { HP h(new Holder); LweBootstrappingKey *bk = new_lweBootstrappingKey_fromStream(i); h->obj = bk; if (bk) h->dtors.push_back([bk] { delete_LweBootstrappingKey(bk); }); return h; };
      k.imp_f = [](FILE *f, const Holder &) { HP h(new Holder); LweBootstrappingKey *bk = new_lweBootstrappingKey_fromFile(f); h->obj = bk; if (bk) h->dtors.push_back([bk] { delete_LweBootstrappingKey(bk); }); return h; };
      k.cmp = [](const Holder &a, const Holder &b) { return cmp_BK((LweBootstrappingKey *) a.obj, (LweBootstrappingKey *) b.obj); };
      K.push_back(k); }
    // ---- gate bootstrapping parameter set
    { Kind k; k.name = "GateBootstrappingParameterSet";
      k.make = [](IoGen &g, int sz) { HP h(new Holder);
          if (sz == 2) { TFheGateBootstrappingParameterSet *p = new_default_gate_bootstrapping_parameters(g.rng.coin() ? 80 : 128); h->obj = p; h->dtors.push_back([p] { delete_gate_bootstrapping_parameters(p); }); }
          else { PSet *ps = make_pset(g, sz); h->obj = ps->gb; h->dtors.push_back([ps] { delete ps; }); }
          return h; };
      k.exp_s = [](std::ostream &o, const Holder &h) { export_tfheGateBootstrappingParameterSet_toStream(o, (TFheGateBootstrappingParameterSet *) h.obj); };
      k.exp_f = [](FILE *f, const Holder &h) { export_tfheGateBootstrappingParameterSet_toFile(f, (TFheGateBootstrappingParameterSet *) h.obj); };
      k.imp_s = [](std::istream &i, const Holder &) { HP h(new Holder); auto p = new_tfheGateBootstrappingParameterSet_fromStream(i); h->obj = p; if (p) h->dtors.push_back([p] { delete_gate_bootstrapping_parameters(p); }); return h; };
      k.imp_f = [](FILE *f, const Holder &) { HP h(new Holder); auto p = new_tfheGateBootstrappingParameterSet_fromFile(f); h->obj = p; if (p) h->dtors.push_back([p] { delete_gate_bootstrapping_parameters(p); }); return h; };
      k.cmp = [](const Holder &a, const Holder &b) { return cmp_GBParams((TFheGateBootstrappingParameterSet *) a.obj, (TFheGateBootstrappingParameterSet *) b.obj); };
      K.push_back(k); }
    // ---- cloud and secret key sets (real key generation)
    for (int secret = 0; secret < 2; secret++) {
      Kind k; k.name = secret ? "SecretKeySet" : "CloudKeySet";
      k.make = [secret](IoGen &g, int sz) { HP h(new Holder);
          const TFheGateBootstrappingParameterSet *gb; 
          if (sz == 2) { TFheGateBootstrappingParameterSet *p = new_default_gate_bootstrapping_parameters(g.rng.coin() ? 80 : 128); gb = p; h->dtors.push_back([p] { delete_gate_bootstrapping_parameters(p); }); }
          else { PSet *ps = make_pset(g, sz); gb = ps->gb; h->dtors.push_back([ps] { delete ps; }); }
          TFheGateBootstrappingSecretKeySet *sk = new_random_gate_bootstrapping_secret_keyset(gb);
          h->aux = sk; h->obj = secret ? (void *) sk : (void *) &sk->cloud; h->dtors.push_back([sk] { delete_gate_bootstrapping_secret_keyset(sk); }); return h; };
      if (secret) {
          k.exp_s = [](std::ostream &o, const Holder &h) { export_tfheGateBootstrappingSecretKeySet_toStream(o, (TFheGateBootstrappingSecretKeySet *) h.obj); };
          k.exp_f = [](FILE *f, const Holder &h) { export_tfheGateBootstrappingSecretKeySet_toFile(f, (TFheGateBootstrappingSecretKeySet *) h.obj); };
          k.imp_s = [](std::istream &i, const Holder &) { HP h(new Holder); auto p = new_tfheGateBootstrappingSecretKeySet_fromStream(i); h->obj = p; if (p) h->dtors.push_back([p] { delete_gate_bootstrapping_secret_keyset(p); }); return h; };
          k.imp_f = [](FILE *f, const Holder &) { HP h(new Holder); auto p = new_tfheGateBootstrappingSecretKeySet_fromFile(f); h->obj = p; if (p) h->dtors.push_back([p] { delete_gate_bootstrapping_secret_keyset(p); }); return h; };
          k.cmp = [](const Holder &a, const Holder &b) { return cmp_Secret((TFheGateBootstrappingSecretKeySet *) a.obj, (TFheGateBootstrappingSecretKeySet *) b.obj); };
      } else {
          k.exp_s = [](std::ostream &o, const Holder &h) { export_tfheGateBootstrappingCloudKeySet_toStream(o, (TFheGateBootstrappingCloudKeySet *) h.obj); };
          k.exp_f = [](FILE *f, const Holder &h) { export_tfheGateBootstrappingCloudKeySet_toFile(f, (TFheGateBootstrappingCloudKeySet *) h.obj); };
          k.imp_s = [](std::istream &i, const Holder &) { HP h(new Holder); auto p = new_tfheGateBootstrappingCloudKeySet_fromStream(i); h->obj = p; if (p) h->dtors.push_back([p] { delete_gate_bootstrapping_cloud_keyset(p); }); return h; };
          k.imp_f = [](FILE *f, const Holder &) { HP h(new Holder); auto p = new_tfheGateBootstrappingCloudKeySet_fromFile(f); h->obj = p; if (p) h->dtors.push_back([p] { delete_gate_bootstrapping_cloud_keyset(p); }); return h; };
          k.cmp = [](const Holder &a, const Holder &b) { return cmp_Cloud((TFheGateBootstrappingCloudKeySet *) a.obj, (TFheGateBootstrappingCloudKeySet *) b.obj); };
      }
      K.push_back(k); }
    return K;
}

} // namespace vh
#endif
