// Common harness support for the tfhe runtime monitors.
//  - argument parsing, deterministic PRNG
//  - JSONL event output (violations, cells, samples, stats)
//  - fatal-signal handler that reports the library operation in progress
//  - guard-page buffers
//  - exact (library-independent) reference arithmetic on the torus
#ifndef VH_HPP
#define VH_HPP

#include <cstdint>
#include <cstdio>
#include <cstdlib>
#include <cstring>
#include <cstdarg>
#include <cmath>
#include <cfenv>
#include <string>
#include <vector>
#include <thread>
#include <map>
#include <set>
#include <sstream>
#include <functional>
#include <signal.h>
#include <unistd.h>
#include <sys/mman.h>
#include <malloc.h>
#include <fcntl.h>

#include "tfhe.h"
#include "tfhe_io.h"

namespace vh {

// ------------------------------------------------------------------ args
struct Args {
    std::map<std::string, std::string> kv;
    Args(int argc, char **argv) {
        for (int i = 1; i < argc; i++) {
            std::string a = argv[i];
            if (a.rfind("--", 0) == 0) {
                std::string k = a.substr(2);
                if (i + 1 < argc && std::string(argv[i + 1]).rfind("--", 0) != 0) { kv[k] = argv[++i]; }
                else kv[k] = "1";
            }
        }
    }
    std::string s(const std::string &k, const std::string &d = "") const {
        auto it = kv.find(k); return it == kv.end() ? d : it->second;
    }
    int64_t i(const std::string &k, int64_t d = 0) const {
        auto it = kv.find(k); return it == kv.end() ? d : strtoll(it->second.c_str(), 0, 0);
    }
    double d(const std::string &k, double dd = 0) const {
        auto it = kv.find(k); return it == kv.end() ? dd : strtod(it->second.c_str(), 0);
    }
    bool has(const std::string &k) const { return kv.count(k) != 0; }
};

// ------------------------------------------------------------------ PRNG (splitmix64 seeded xoshiro256**)
struct Rng {
    uint64_t s[4];
    static uint64_t splitmix(uint64_t &x) {
        uint64_t z = (x += 0x9e3779b97f4a7c15ULL);
        z = (z ^ (z >> 30)) * 0xbf58476d1ce4e5b9ULL;
        z = (z ^ (z >> 27)) * 0x94d049bb133111ebULL;
        return z ^ (z >> 31);
    }
    explicit Rng(uint64_t seed = 1) { reseed(seed); }
    void reseed(uint64_t seed) { uint64_t x = seed; for (int i = 0; i < 4; i++) s[i] = splitmix(x); }
    static inline uint64_t rotl(uint64_t x, int k) { return (x << k) | (x >> (64 - k)); }
    uint64_t next() {
        const uint64_t r = rotl(s[1] * 5, 7) * 9, t = s[1] << 17;
        s[2] ^= s[0]; s[3] ^= s[1]; s[1] ^= s[2]; s[0] ^= s[3]; s[2] ^= t; s[3] = rotl(s[3], 45);
        return r;
    }
    uint32_t u32() { return (uint32_t) (next() >> 32); }
    int32_t i32() { return (int32_t) u32(); }
    // uniform in [0,n)
    uint64_t below(uint64_t n) { return n ? next() % n : 0; }
    int64_t range(int64_t lo, int64_t hi) { return lo + (int64_t) below((uint64_t) (hi - lo + 1)); }
    double unit() { return (next() >> 11) * (1.0 / 9007199254740992.0); }
    bool coin() { return next() >> 63; }
};

// seed the library generator deterministically
inline void seed_library(uint64_t seed) {
    uint32_t v[4] = {(uint32_t) seed, (uint32_t) (seed >> 32), 0x5eedu, 0x7f4eu};
    tfhe_random_generator_setSeed(v, 4);
}

// ------------------------------------------------------------------ JSON building
inline std::string jstr(const std::string &s) {
    std::string o = "\"";
    for (unsigned char c: s) {
        if (c == '"' || c == '\\') { o += '\\'; o += (char) c; }
        else if (c < 0x20) { char b[8]; snprintf(b, sizeof b, "\\u%04x", c); o += b; }
        else o += (char) c;
    }
    return o + "\"";
}

struct J {
    std::string body;
    bool first = true;
    J &raw(const std::string &k, const std::string &v) {
        if (!first) body += ","; first = false;
        body += jstr(k) + ":" + v; return *this;
    }
    J &s(const std::string &k, const std::string &v) { return raw(k, jstr(v)); }
    J &i(const std::string &k, long long v) { return raw(k, std::to_string(v)); }
    J &u(const std::string &k, unsigned long long v) { return raw(k, std::to_string(v)); }
    J &d(const std::string &k, double v) {
        char b[64];
        if (std::isfinite(v)) { snprintf(b, sizeof b, "%.17g", v); for (char *q = b; *q; q++) if (*q == ',') *q = '.'; /* a driver may run under a decimal-comma locale */ }
        else snprintf(b, sizeof b, "null");
        return raw(k, b);
    }
    J &b(const std::string &k, bool v) { return raw(k, v ? "true" : "false"); }
    J &o(const std::string &k, const J &v) { return raw(k, v.str()); }
    std::string str() const { return "{" + body + "}"; }
};

template<class T>
inline std::string jarr(const std::vector<T> &v) {
    std::string o = "[";
    for (size_t i = 0; i < v.size(); i++) { if (i) o += ","; o += std::to_string(v[i]); }
    return o + "]";
}
inline std::string jarr_s(const std::vector<std::string> &v) {
    std::string o = "[";
    for (size_t i = 0; i < v.size(); i++) { if (i) o += ","; o += jstr(v[i]); }
    return o + "]";
}

// ------------------------------------------------------------------ output (JSONL)
// line types: {"t":"viol","key":..,"detail":{..}}  {"t":"sample",..}  {"t":"stat",..}  {"t":"cells","cells":{..}}
//             {"t":"done","evaluations":N}   {"t":"crash",...} (written by the signal handler)
struct Out {
    FILE *f = nullptr;
    int fd = 2;
    uint64_t evaluations = 0;
    uint64_t nviol = 0;
    uint64_t max_viol_lines = 200;
    uint64_t nsamples = 0;
    std::map<std::string, uint64_t> cells;       // non-trivial cells
    std::map<std::string, uint64_t> trivial;     // trivial cells (counted apart)
    std::map<std::string, uint64_t> viol_keys;

    void open(const std::string &path) {
        if (path.empty() || path == "-") { f = stdout; fd = 1; }
        else { f = fopen(path.c_str(), "w"); if (!f) { perror("open out"); exit(2); } fd = fileno(f); }
        setvbuf(f, nullptr, _IOLBF, 0);
    }
    void line(const std::string &s) { fputs(s.c_str(), f); fputc('\n', f); fflush(f); }
    void viol(const std::string &key, const J &detail) {
        nviol++;
        if (viol_keys[key]++ < 5 && nviol <= max_viol_lines)
            line(J().s("t", "viol").s("key", key).o("detail", detail).str());
    }
    void sample(const J &j, uint64_t cap = 12) {
        if (nsamples++ < cap) line(J().s("t", "sample").o("case", j).str());
    }
    void stat(const J &j) { line(J().s("t", "stat").o("stat", j).str()); }
    void cell(const std::string &c, uint64_t n = 1) { cells[c] += n; }
    void tcell(const std::string &c, uint64_t n = 1) { trivial[c] += n; }
    void finish() {
        auto dump = [&](const char *name, std::map<std::string, uint64_t> &m) {
            std::string o = "{"; bool first = true;
            for (auto &kv: m) { if (!first) o += ","; first = false; o += jstr(kv.first) + ":" + std::to_string(kv.second); }
            o += "}";
            line(J().s("t", name).raw("cells", o).str());
        };
        dump("cells", cells);
        dump("trivial", trivial);
        std::string vk = "{"; bool first = true;
        for (auto &kv: viol_keys) { if (!first) vk += ","; first = false; vk += jstr(kv.first) + ":" + std::to_string(kv.second); }
        vk += "}";
        line(J().s("t", "done").u("evaluations", evaluations).u("violations", nviol).raw("viol_keys", vk).str());
    }
};

extern Out out;

// ------------------------------------------------------------------ operation label + crash handler
// The label names the library call in progress so that a crash is keyed by operation and cell, not by driver.
struct Label {
    static char *buf() { static thread_local char b[256] = "startup"; return b; }
    static void set(const char *fmt, ...) __attribute__((format(printf, 1, 2)));
};
inline void Label::set(const char *fmt, ...) {
    va_list ap; va_start(ap, fmt); vsnprintf(buf(), 256, fmt, ap); va_end(ap);
}
#define VH_OP(...) ::vh::Label::set(__VA_ARGS__)

inline void crash_handler(int sig, siginfo_t *si, void *) {
    char b[512];
    unsigned long addr = (unsigned long) si->si_addr;
    // async-signal-safe formatting
    int n = 0;
    const char *p1 = "{\"t\":\"crash\",\"sig\":";
    for (const char *p = p1; *p; p++) b[n++] = *p;
    { char t[8]; int k = 0; int s = sig; if (!s) t[k++] = '0'; while (s) { t[k++] = '0' + s % 10; s /= 10; } while (k) b[n++] = t[--k]; }
    const char *p2 = ",\"addr\":";
    for (const char *p = p2; *p; p++) b[n++] = *p;
    { char t[24]; int k = 0; unsigned long a = addr; if (!a) t[k++] = '0'; while (a) { t[k++] = '0' + a % 10; a /= 10; } while (k) b[n++] = t[--k]; }
    const char *p3 = ",\"label\":\"";
    for (const char *p = p3; *p; p++) b[n++] = *p;
    for (const char *p = Label::buf(); *p && n < 480; p++) { char c = *p; if (c == '"' || c == '\\' || c < 0x20) c = '_'; b[n++] = c; }
    b[n++] = '"'; b[n++] = '}'; b[n++] = '\n';
    ssize_t r = write(out.fd, b, n); (void) r;
    signal(sig, SIG_DFL);
    raise(sig);
}

// Hostile allocator: glibc fills every malloc'ed block with a non-zero pattern and every freed block with another one, so
// that a result which depends on uninitialised or freed heap memory changes instead of silently reading zero pages of a
// fresh process (sanitizer and valgrind builds replace the allocator and ignore this).
inline void hostile_heap() {
    if (getenv("VH_NO_PERTURB")) return;
    mallopt(M_PERTURB, 0x5A);
}

inline void install_crash_handler() {
    hostile_heap();
    static char altstack[1 << 16];
    stack_t ss; ss.ss_sp = altstack; ss.ss_size = sizeof altstack; ss.ss_flags = 0;
    sigaltstack(&ss, nullptr);
    struct sigaction sa; memset(&sa, 0, sizeof sa);
    sa.sa_sigaction = crash_handler; sa.sa_flags = SA_SIGINFO | SA_ONSTACK | SA_NODEFER;
    int sigs[] = {SIGSEGV, SIGBUS, SIGABRT, SIGFPE, SIGILL};
    for (int s: sigs) sigaction(s, &sa, nullptr);
}

// ------------------------------------------------------------------ guard-page buffer
// n int32 placed flush against a PROT_NONE page (overrun by one byte faults), canary page below.
struct GuardBuf {
    uint8_t *base = nullptr; size_t total = 0; int32_t *p = nullptr; size_t n = 0; size_t pg = 4096;
    uint8_t *lo_canary = nullptr; size_t lo_len = 0;
    GuardBuf() {}
    explicit GuardBuf(size_t n_) { alloc(n_); }
    GuardBuf(const GuardBuf &) = delete;
    void alloc(size_t n_) {
        n = n_; size_t bytes = n * 4; size_t npg = (bytes + pg - 1) / pg + 1;
        total = (npg + 1) * pg;
        base = (uint8_t *) mmap(nullptr, total, PROT_READ | PROT_WRITE, MAP_PRIVATE | MAP_ANONYMOUS, -1, 0);
        if (base == MAP_FAILED) { perror("mmap"); exit(2); }
        mprotect(base + npg * pg, pg, PROT_NONE);
        p = (int32_t *) (base + npg * pg - bytes);
        lo_canary = base; lo_len = (uint8_t *) p - base;
        memset(base, 0xA5, lo_len);
    }
    bool canary_ok() const { for (size_t i = 0; i < lo_len; i++) if (lo_canary[i] != 0xA5) return false; return true; }
    ~GuardBuf() { if (base) munmap(base, total); }
};

// an LweSample whose mask lives in a guard buffer (public fields re-pointed; restored before destruction)
struct GuardedLwe {
    LweSample *s; Torus32 *orig; GuardBuf g; int n;
    GuardedLwe(const LweParams *params) : n(params->n) {
        s = new_LweSample(params); orig = s->a; g.alloc(n > 0 ? n : 1); s->a = g.p;
        // never hand the library a zeroed result object: a function that accumulates where it should assign must show
        for (int i = 0; i < n; i++) s->a[i] = (int32_t) (0x5A5A5A5Au + 2654435761u * (uint32_t) i); s->b = (int32_t) 0xC3C3C3C3u; s->current_variance = 7.75;
    }
    ~GuardedLwe() { s->a = orig; delete_LweSample(s); }
    GuardedLwe(const GuardedLwe &) = delete;
};

// ------------------------------------------------------------------ exact reference arithmetic
// The torus is Z/2^32: wrapping uint32 arithmetic *is* the exact arithmetic of the ring.
typedef uint32_t U;

// exact negacyclic product r = a (int poly) * b (torus poly) mod X^N+1, mod 2^32
inline void ref_negacyclic(std::vector<U> &r, const int32_t *a, const int32_t *b, int N) {
    r.assign(N, 0);
    for (int i = 0; i < N; i++) {
        U ai = (U) a[i]; if (!ai) continue;
        for (int j = 0; j < N; j++) {
            U t = ai * (U) b[j];
            int k = i + j;
            if (k < N) r[k] += t; else r[k - N] -= t;
        }
    }
}

// exact X^a * p  for a in [0,2N)
inline void ref_mul_xai(std::vector<U> &r, int a, const int32_t *p, int N) {
    r.assign(N, 0);
    for (int i = 0; i < N; i++) {
        int k = (i + a) % (2 * N);
        if (k < N) r[k] = (U) p[i]; else r[k - N] = (U) 0 - (U) p[i];
    }
}

// exact LWE phase b - <a,s> for arbitrary integer key
inline U ref_lwe_phase(const LweSample *c, const int32_t *key, int n) {
    U acc = (U) c->b;
    for (int i = 0; i < n; i++) acc -= (U) c->a[i] * (U) key[i];
    return acc;
}

// exact TLWE phase b - sum a_i * s_i (negacyclic), any integer key polys
inline void ref_tlwe_phase(std::vector<U> &ph, const TLweSample *c, const IntPolynomial *key, int N, int k) {
    ph.resize(N);
    for (int j = 0; j < N; j++) ph[j] = (U) c->b->coefsT[j];
    std::vector<U> t;
    for (int i = 0; i < k; i++) {
        ref_negacyclic(t, key[i].coefs, c->a[i].coefsT, N);
        for (int j = 0; j < N; j++) ph[j] -= t[j];
    }
}

// round-to-nearest of M*phase/2^32 in [0,M) written from the definition (128-bit), ties reported
// returns r; *tie set when M*phase is exactly half way.
inline int64_t ref_modswitch(uint32_t phase, int64_t M, bool *tie = nullptr) {
    unsigned __int128 x = (unsigned __int128) phase * (unsigned __int128) M; // in units of 2^-32
    unsigned __int128 half = (unsigned __int128) 1 << 31;
    unsigned __int128 q = (x + half) >> 32;
    if (tie) *tie = ((x & 0xffffffffu) == 0x80000000u);
    return (int64_t) (q % (unsigned __int128) M);
}

inline int32_t sdiff(U a, U b) { return (int32_t) (a - b); }
inline int64_t iabs64(int64_t x) { return x < 0 ? -x : x; }

// ------------------------------------------------------------------ parameter sets
struct PSet {
    int n, N, k, l, Bgbit, t, basebit; double ks_stdev, bk_stdev, max_stdev;
    LweParams *lwe = nullptr; TLweParams *tlwe = nullptr; TGswParams *tgsw = nullptr;
    TFheGateBootstrappingParameterSet *gb = nullptr;
    bool shared_lwe = false;
    // share_extracted: the in/out LWE parameters ARE the accumulator's extracted parameter object (n = k*N): one LweParams object
    // in both roles, a legal way to build a parameter set by hand
    PSet(int n, int N, int k, int l, int Bgbit, int t, int basebit, double ks_stdev, double bk_stdev, double max_stdev = 0.012467, bool share_extracted = false)
            : n(share_extracted ? k * N : n), N(N), k(k), l(l), Bgbit(Bgbit), t(t), basebit(basebit), ks_stdev(ks_stdev), bk_stdev(bk_stdev), max_stdev(max_stdev), shared_lwe(share_extracted) {
        tlwe = new_TLweParams(N, k, bk_stdev, max_stdev);
        lwe = share_extracted ? (LweParams *) &tlwe->extracted_lweparams : new_LweParams(n, ks_stdev, max_stdev);
        tgsw = new_TGswParams(l, Bgbit, tlwe);
        gb = new TFheGateBootstrappingParameterSet(t, basebit, lwe, tgsw);
    }
    ~PSet() { delete gb; delete_TGswParams(tgsw); delete_TLweParams(tlwe); if (!shared_lwe) delete_LweParams(lwe); }
    PSet(const PSet &) = delete;
    std::string name() const {
        char b[128]; snprintf(b, sizeof b, "n%d.N%d.k%d.l%d.Bg%d.t%d.bb%d", n, N, k, l, Bgbit, t, basebit); return b;
    }
};

inline const char *backend_name() {
#ifdef VH_BACKEND
    return VH_BACKEND;
#else
    const char *e = getenv("VH_BACKEND"); return e ? e : "unknown";
#endif
}
inline const char *flavor_name() { const char *e = getenv("VH_FLAVOR"); return e ? e : "unknown"; }

inline uint64_t fnv1a(const void *p, size_t n, uint64_t h = 1469598103934665603ULL) {
    const uint8_t *b = (const uint8_t *) p;
    for (size_t i = 0; i < n; i++) { h ^= b[i]; h *= 1099511628211ULL; }
    return h;
}

} // namespace vh

// The driver's main() is renamed; the real entry point runs it on the initial thread or, with VH_ON_THREAD set (decided by
// the check per job), on a freshly created thread: nothing the properties state depends on which thread calls the library.
namespace vh { inline int run_entry(int (*f)(int, char **), int argc, char **argv) {
    // VH_FPROUND=upward|downward|towardzero: the application has chosen another floating-point rounding direction (threads
    // created afterwards inherit it). The unchanged library is insensitive to it; so must be what the properties state.
    if (const char *fr = getenv("VH_FPROUND")) { std::string m = fr; fesetround(m == "upward" ? FE_UPWARD : m == "downward" ? FE_DOWNWARD : m == "towardzero" ? FE_TOWARDZERO : FE_TONEAREST); }
    // VH_FPFLAGS: unrelated earlier code of the application left the sticky floating-point exception flags raised (invalid,
    // divide-by-zero, overflow, underflow, inexact); threads created afterwards inherit them
    if (getenv("VH_FPFLAGS")) feraiseexcept(FE_ALL_EXCEPT);
    if (!getenv("VH_ON_THREAD")) return f(argc, argv);
    int rc = 0; std::thread t([&] { rc = f(argc, argv); }); t.join(); return rc; } }
#define VH_MAIN_GLOBALS namespace vh { Out out; } \
    int vh_driver_main(int, char **); \
    extern "C" int vh_entry(int argc, char **argv) __asm__("main"); \
    extern "C" int vh_entry(int argc, char **argv) { return vh::run_entry(&vh_driver_main, argc, argv); }
#define main vh_driver_main

#endif
