// Heap phase: operator new / new[] of the whole program (library included) replaced by a version that can place every
// block of at least 256 bytes at a chosen residue modulo 32 (0 or 16; glibc and the C++ default guarantee 16 only), selected
// per thread, or ("spread", phase 100) take successive blocks in turn from three regions of the address space that are
// terabytes apart (malloc, and two private mappings). Results must not depend on where the allocator happens to place
// objects and temporaries, and code must not assume more alignment or proximity than it asked for.
// Include in exactly one translation unit of a driver. Not compiled into the sanitizer and valgrind builds (those tools bring
// their own operator new with red zones and mismatch checks).
#pragma once
#include <cstdlib>
#include <cstdint>
#include <cstring>
#include <new>
#include <atomic>
#include <sys/mman.h>
#if !defined(__SANITIZE_ADDRESS__) && !defined(__SANITIZE_THREAD__) && !defined(VH_NO_HEAP_PHASE)
#define VH_HEAP_PHASE 1
namespace vh { static thread_local int heap_phase = -1; static thread_local unsigned heap_turn = 0;
               static inline void set_heap_phase(int p) { heap_phase = p; }   // -1: as malloc places it (+32); 0 / 16: residue mod 32; 100: spread
               static std::atomic<uint64_t> heap_far_off[2]; static std::atomic<uint64_t> heap_far_blocks{0}; }
struct VhBlockHdr { void *base; uint64_t maplen; };   // maplen 0: malloc'ed
static inline void *vh_phase_alloc(size_t n) {
    int ph = vh::heap_phase;
    if (ph == 100 && n >= 64) {
        unsigned turn = vh::heap_turn++ % 3;
        if (turn) {
            uint64_t len = (n + 64 + 4095) & ~(uint64_t) 4095;
            uint64_t off = vh::heap_far_off[turn - 1].fetch_add(len + 4096);
            void *hint = (void *) ((turn == 1 ? 0x100000000000ull : 0x300000000000ull) + off);
            void *m = mmap(hint, len, PROT_READ | PROT_WRITE, MAP_PRIVATE | MAP_ANONYMOUS, -1, 0);
            if (m != MAP_FAILED) {
                memset(m, 0xA5, len);                                        // never hand out zero pages: dirty like the perturbed malloc heap
                char *p = (char *) m + 32 + ((off >> 12) & 1) * 16;      // both residues modulo 32
                VhBlockHdr *h = (VhBlockHdr *) p - 1; h->base = m; h->maplen = len; vh::heap_far_blocks++;
                return p;
            }
        }
        ph = 0;
    }
    char *base = (char *) malloc(n + 80);
    if (!base) throw std::bad_alloc();
    char *p;
    if (ph < 0 || n < 256) p = base + 32;
    else p = (char *) ((((uintptr_t) base + 32 + 31) & ~(uintptr_t) 31) + (uintptr_t) ph);
    VhBlockHdr *h = (VhBlockHdr *) p - 1; h->base = base; h->maplen = 0;
    return p;
}
static inline void vh_phase_free(void *p) { if (!p) return; VhBlockHdr *h = (VhBlockHdr *) p - 1; if (h->maplen) munmap(h->base, h->maplen); else free(h->base); }
void *operator new(size_t n) { return vh_phase_alloc(n); }
void *operator new[](size_t n) { return vh_phase_alloc(n); }
void *operator new(size_t n, const std::nothrow_t &) noexcept { try { return vh_phase_alloc(n); } catch (...) { return nullptr; } }
void *operator new[](size_t n, const std::nothrow_t &) noexcept { try { return vh_phase_alloc(n); } catch (...) { return nullptr; } }
void operator delete(void *p) noexcept { vh_phase_free(p); }
void operator delete[](void *p) noexcept { vh_phase_free(p); }
void operator delete(void *p, size_t) noexcept { vh_phase_free(p); }
void operator delete[](void *p, size_t) noexcept { vh_phase_free(p); }
void operator delete(void *p, const std::nothrow_t &) noexcept { vh_phase_free(p); }
void operator delete[](void *p, const std::nothrow_t &) noexcept { vh_phase_free(p); }
#else
namespace vh { static inline void set_heap_phase(int) {} }
#endif
