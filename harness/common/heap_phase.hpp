// Heap phase: operator new / new[] of the whole program (library included) replaced by a version that can place every
// block of at least 256 bytes at a chosen residue modulo 32 (0 or 16; glibc and the C++ default guarantee 16 only), selected
// per thread. Results must not depend on where the allocator happens to place temporaries, and code must not assume more
// alignment than it asked for. Include in exactly one translation unit of a driver. Not compiled into the sanitizer builds
// (they keep their own operator new with its red zones and mismatch checks).
#pragma once
#include <cstdlib>
#include <cstdint>
#include <new>
#if !defined(__SANITIZE_ADDRESS__) && !defined(__SANITIZE_THREAD__)
#define VH_HEAP_PHASE 1
namespace vh { static thread_local int heap_phase = -1; static inline void set_heap_phase(int p) { heap_phase = p; } }   // -1: as malloc places it (+16)
static inline void *vh_phase_alloc(size_t n) {
    int ph = vh::heap_phase;
    char *base = (char *) malloc(n + 64);
    if (!base) throw std::bad_alloc();
    char *p;
    if (ph < 0 || n < 256) p = base + 16;
    else p = (char *) ((((uintptr_t) base + 16 + 31) & ~(uintptr_t) 31) + (uintptr_t) ph);
    ((void **) p)[-1] = base;
    return p;
}
void *operator new(size_t n) { return vh_phase_alloc(n); }
void *operator new[](size_t n) { return vh_phase_alloc(n); }
void *operator new(size_t n, const std::nothrow_t &) noexcept { try { return vh_phase_alloc(n); } catch (...) { return nullptr; } }
void *operator new[](size_t n, const std::nothrow_t &) noexcept { try { return vh_phase_alloc(n); } catch (...) { return nullptr; } }
void operator delete(void *p) noexcept { if (p) free(((void **) p)[-1]); }
void operator delete[](void *p) noexcept { if (p) free(((void **) p)[-1]); }
void operator delete(void *p, size_t) noexcept { if (p) free(((void **) p)[-1]); }
void operator delete[](void *p, size_t) noexcept { if (p) free(((void **) p)[-1]); }
void operator delete(void *p, const std::nothrow_t &) noexcept { if (p) free(((void **) p)[-1]); }
void operator delete[](void *p, const std::nothrow_t &) noexcept { if (p) free(((void **) p)[-1]); }
#else
namespace vh { static inline void set_heap_phase(int) {} }
#endif
