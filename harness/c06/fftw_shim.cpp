// FFTW planner shim for ThreadSanitizer runs (fftw back-end only).
// libfftw3 is not instrumented, so TSan cannot see its planner state. FFTW documents that every function except
// fftw_execute* is NOT thread-safe: all planner calls must be serialised by the caller. These definitions interpose the
// planner entry points the library uses (the executable's definitions win over libfftw3.so's), perform a plain write to one
// shadow variable that stands for the planner's global state, and forward to the real function. TSan then checks that the
// library orders all its planner calls (plan creation and destruction) by a common lock.
#include <fftw3.h>
#include <dlfcn.h>

static long planner_shadow_state = 0;

extern "C" fftw_plan fftw_plan_dft_r2c_1d(int n, double *in, fftw_complex *out, unsigned flags) {
    typedef fftw_plan (*F)(int, double *, fftw_complex *, unsigned);
    static F real = (F) dlsym(RTLD_NEXT, "fftw_plan_dft_r2c_1d");
    planner_shadow_state++;
    fftw_plan p = real(n, in, out, flags);
    planner_shadow_state++;
    return p;
}
extern "C" fftw_plan fftw_plan_dft_c2r_1d(int n, fftw_complex *in, double *out, unsigned flags) {
    typedef fftw_plan (*F)(int, fftw_complex *, double *, unsigned);
    static F real = (F) dlsym(RTLD_NEXT, "fftw_plan_dft_c2r_1d");
    planner_shadow_state++;
    fftw_plan p = real(n, in, out, flags);
    planner_shadow_state++;
    return p;
}
extern "C" void fftw_destroy_plan(fftw_plan p) {
    typedef void (*F)(fftw_plan);
    static F real = (F) dlsym(RTLD_NEXT, "fftw_destroy_plan");
    planner_shadow_state++;
    real(p);
    planner_shadow_state++;
}
