#!/usr/bin/env python3
"""Builds a minimal C-library locale 'xx_COMMA' (decimal comma, digit grouping) with localedef into <dir>/xx_COMMA.
The image ships only the C/POSIX locales; an application running under de_DE or fr_FR is an ordinary environment for the
text format of the serialisation layer. usage: mklocale.py <dir>  (prints the directory to use as LOCPATH, or nothing)"""
import os, subprocess, sys, tempfile


def build(dest):
    tgt = os.path.join(dest, "xx_COMMA")
    if os.path.exists(os.path.join(tgt, "LC_NUMERIC")):
        return dest
    os.makedirs(dest, exist_ok=True)
    with tempfile.TemporaryDirectory() as td:
        cm = os.path.join(td, "ASCII.cm")
        with open(cm, "w") as f:
            f.write("<code_set_name> ANSI_X3.4-1968\n<comment_char> %\n<escape_char> /\nCHARMAP\n")
            for c in range(128):
                f.write("<U%04X> /x%02x\n" % (c, c))
            f.write("END CHARMAP\n")
        src = os.path.join(td, "xx_COMMA.src")
        with open(src, "w") as f:
            f.write("""comment_char %
escape_char /
LC_CTYPE
upper <U0041>;<U0042>;<U0043>;<U0044>;<U0045>;<U0046>;<U0047>;<U0048>;<U0049>;<U004A>;<U004B>;<U004C>;<U004D>;<U004E>;<U004F>;<U0050>;<U0051>;<U0052>;<U0053>;<U0054>;<U0055>;<U0056>;<U0057>;<U0058>;<U0059>;<U005A>
lower <U0061>;<U0062>;<U0063>;<U0064>;<U0065>;<U0066>;<U0067>;<U0068>;<U0069>;<U006A>;<U006B>;<U006C>;<U006D>;<U006E>;<U006F>;<U0070>;<U0071>;<U0072>;<U0073>;<U0074>;<U0075>;<U0076>;<U0077>;<U0078>;<U0079>;<U007A>
digit <U0030>;<U0031>;<U0032>;<U0033>;<U0034>;<U0035>;<U0036>;<U0037>;<U0038>;<U0039>
space <U0020>;<U0009>;<U000A>;<U000B>;<U000C>;<U000D>
blank <U0020>;<U0009>
END LC_CTYPE
LC_NUMERIC
decimal_point "<U002C>"
thousands_sep "<U002E>"
grouping 3;3
END LC_NUMERIC
""")
        r = subprocess.run(["localedef", "-c", "-i", src, "-f", cm, tgt], capture_output=True, text=True)
        if not os.path.exists(os.path.join(tgt, "LC_NUMERIC")):
            sys.stderr.write(r.stderr[-2000:])
            return None
    return dest


if __name__ == "__main__":
    d = build(sys.argv[1])
    if d:
        print(d)
