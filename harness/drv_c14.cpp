// C14: LWE / TLWE linear operations act exactly linearly on phases, for every dimension; extraction is exact.
// Masks of LWE samples live in guard-page buffers so the hand-written AVX2 tail code faults on any overrun.
#include "vh.hpp"
#include "heap_phase.hpp"
#include <thread>
#include <atomic>
#include <sched.h>
VH_MAIN_GLOBALS
using namespace vh;

static Rng rng;
enum { RANDOM, EXTREME, SMALLV, NCL };
static const char *cname[] = {"random", "extreme", "small"};

static int32_t val(int cls) {
    switch (cls) {
        case RANDOM: return rng.i32();
        case EXTREME: { int r = rng.below(4); return r == 0 ? INT32_MIN : r == 1 ? INT32_MAX : r == 2 ? -1 : 1; }
        default: return (int32_t) rng.range(-3, 3);
    }
}

static void fill_lwe(LweSample *c, int n, int cls, double var) {
    for (int i = 0; i < n; i++) c->a[i] = val(cls);
    c->b = val(cls); c->current_variance = var;
}

static bool var_close(double got, double want) {
    double tol = 1e-12 * (fabs(want) + 1e-300);
    return got == want || fabs(got - want) <= tol;
}

static void lwe_ops(int n, int reps) {
    LweParams *P = new_LweParams(n, 0.001, 0.25);
    GuardedLwe g1(P), g2(P), gr(P), gsnap(P);
    LweSample *c1 = g1.s, *c2 = g2.s, *r = gr.s, *snap = gsnap.s;
    std::vector<int32_t> key(n);
    int32_t ps[] = {0, 1, -1, 2, -2, 32767, -32767, INT32_MIN, INT32_MAX, 0, 0};
    char cell[96];
    for (int rep = 0; rep < reps; rep++) {
        int kcls = rep % 3;  // binary, arbitrary, extreme keys: linearity must hold for any key
        for (int i = 0; i < n; i++) key[i] = kcls == 0 ? (int32_t) rng.below(2) : kcls == 1 ? rng.i32() : val(EXTREME);
        int ca = rng.below(NCL), cb = rng.below(NCL);
        double v1 = rng.unit() * 1e-4, v2 = rng.unit() * 1e-4;
        fill_lwe(c1, n, ca, v1); fill_lwe(c2, n, cb, v2);
        U ph1 = ref_lwe_phase(c1, key.data(), n), ph2 = ref_lwe_phase(c2, key.data(), n);
        ps[9] = rng.i32(); ps[10] = (int32_t) rng.range(-32767, 32767);
        auto load = [&](LweSample *dst, const LweSample *src) { memcpy(dst->a, src->a, 4 * n); dst->b = src->b; dst->current_variance = src->current_variance; };
        auto same = [&](const LweSample *x, const LweSample *y) { return memcmp(x->a, y->a, 4 * n) == 0 && x->b == y->b && x->current_variance == y->current_variance; };
        auto expect = [&](const char *fn, U want_phase, double want_var, bool check_var, int p, const LweSample *input2) {
            out.evaluations++;
            U got = ref_lwe_phase(r, key.data(), n);
            if (got != want_phase)
                out.viol(std::string("lwe-linear:") + fn, J().s("fn", fn).i("n", n).i("p", p).u("phase_got", got).u("phase_want", want_phase).s("class1", cname[ca]).s("class2", cname[cb]).i("keyclass", kcls));
            if (check_var && !var_close(r->current_variance, want_var))
                out.viol(std::string("lwe-variance:") + fn, J().s("fn", fn).i("n", n).i("p", p).d("var_got", r->current_variance).d("var_want", want_var));
            if (input2 && !same(input2, snap))
                out.viol(std::string("lwe-input-modified:") + fn, J().s("fn", fn).i("n", n));
            if (!gr.g.canary_ok() || !g1.g.canary_ok() || !g2.g.canary_ok())
                out.viol(std::string("lwe-underrun:") + fn, J().s("fn", fn).i("n", n));
        };
        load(snap, c2);
        VH_OP("lweAddTo:n=%d", n); load(r, c1); lweAddTo(r, c2, P); expect("lweAddTo", ph1 + ph2, v1 + v2, true, 1, c2);
        VH_OP("lweSubTo:n=%d", n); load(r, c1); lweSubTo(r, c2, P); expect("lweSubTo", ph1 - ph2, v1 + v2, true, 1, c2);
        for (int32_t p: ps) {
            bool cv = p > -32768 && p < 32768;
            VH_OP("lweAddMulTo:n=%d", n); load(r, c1); lweAddMulTo(r, p, c2, P); expect("lweAddMulTo", ph1 + (U) p * ph2, v1 + (double) p * p * v2, cv, p, c2);
            VH_OP("lweSubMulTo:n=%d", n); load(r, c1); lweSubMulTo(r, p, c2, P); expect("lweSubMulTo", ph1 - (U) p * ph2, v1 + (double) p * p * v2, cv, p, c2);
        }
        VH_OP("lweCopy:n=%d", n); fill_lwe(r, n, RANDOM, 9.); lweCopy(r, c2, P); expect("lweCopy", ph2, v2, true, 0, c2);
        VH_OP("lweNegate:n=%d", n); fill_lwe(r, n, RANDOM, 9.); lweNegate(r, c2, P); expect("lweNegate", (U) 0 - ph2, v2, true, 0, c2);
        VH_OP("lweClear:n=%d", n); fill_lwe(r, n, RANDOM, 9.); lweClear(r, P); expect("lweClear", 0, 0., true, 0, nullptr);
        Torus32 mu = val(rep % NCL);
        VH_OP("lweNoiselessTrivial:n=%d", n); fill_lwe(r, n, RANDOM, 9.); lweNoiselessTrivial(r, mu, P); expect("lweNoiselessTrivial", (U) mu, 0., true, 0, nullptr);
        // in-place aliasing (result is the operand)
        VH_OP("lweAddTo:alias:n=%d", n); load(r, c1); lweAddTo(r, r, P); expect("lweAddTo.alias", ph1 + ph1, v1 + v1, true, 1, nullptr);
        VH_OP("lweSubTo:alias:n=%d", n); load(r, c1); lweSubTo(r, r, P); expect("lweSubTo.alias", 0, v1 + v1, true, 1, nullptr);
        VH_OP("lweNegate:alias:n=%d", n); load(r, c1); lweNegate(r, r, P); expect("lweNegate.alias", (U) 0 - ph1, v1, true, 0, nullptr);
        VH_OP("lweAddMulTo:alias:n=%d", n); load(r, c1); lweAddMulTo(r, 3, r, P); expect("lweAddMulTo.alias", 4u * ph1, v1 + 9 * v1, true, 3, nullptr);
        for (int32_t p: ps) {       // the result is the operand, for every multiplier of the list (c += p c, c -= p c)
            bool cv = p > -32768 && p < 32768;
            VH_OP("lweAddMulTo:alias:p=%d:n=%d", p, n); load(r, c1); lweAddMulTo(r, p, r, P); expect("lweAddMulTo.alias", ph1 + (U) p * ph1, v1 + (double) p * p * v1, cv, p, nullptr);
            VH_OP("lweSubMulTo:alias:p=%d:n=%d", p, n); load(r, c1); lweSubMulTo(r, p, r, P); expect("lweSubMulTo.alias", ph1 - (U) p * ph1, v1 + (double) p * p * v1, cv, p, nullptr);
        }
        // library phase agrees with the exact phase for a binary key object
        if (kcls == 0) {
            LweKey *K = new_LweKey(P);
            for (int i = 0; i < n; i++) K->key[i] = key[i];
            VH_OP("lwePhase:n=%d", n);
            Torus32 lp = lwePhase(c1, K);
            out.evaluations++;
            if ((U) lp != ph1) out.viol("lwe-linear:lwePhase", J().i("n", n).u("got", (U) lp).u("want", ph1));
            delete_LweKey(K);
        }
        snprintf(cell, sizeof cell, "lwe:n=%d:%s,%s:key%d", n, cname[ca], cname[cb], kcls); out.cell(cell);
    }
    delete_LweParams(P);
}

static void fill_tlwe(TLweSample *c, int N, int k, int cls, double var) {
    for (int i = 0; i <= k; i++) for (int j = 0; j < N; j++) c->a[i].coefsT[j] = val(cls);
    c->current_variance = var;
}

static void tlwe_ops(int N, int k, int reps) {
    TLweParams *P = new_TLweParams(N, k, 0.001, 0.25);
    TLweSample *c1 = new_TLweSample(P), *c2 = new_TLweSample(P), *r = new_TLweSample(P);
    IntPolynomial *key = new_IntPolynomial_array(k, N);
    IntPolynomial *ip = new_IntPolynomial(N);
    TorusPolynomial *mu = new_TorusPolynomial(N);
    std::vector<U> ph1, ph2, got, want(N), t;
    int32_t ps[] = {0, 1, -1, 2, 32767, INT32_MIN, INT32_MAX, 0};
    char cell[96];
    for (int rep = 0; rep < reps; rep++) {
        int kcls = rep % 2;
        for (int i = 0; i < k; i++) for (int j = 0; j < N; j++) key[i].coefs[j] = kcls == 0 ? (int32_t) rng.below(2) : rng.i32();
        int ca = rng.below(NCL), cb = rng.below(NCL);
        double v1 = rng.unit() * 1e-4, v2 = rng.unit() * 1e-4;
        fill_tlwe(c1, N, k, ca, v1); fill_tlwe(c2, N, k, cb, v2);
        ref_tlwe_phase(ph1, c1, key, N, k); ref_tlwe_phase(ph2, c2, key, N, k);
        ps[7] = rng.i32();
        auto load = [&](TLweSample *dst, const TLweSample *src) { for (int i = 0; i <= k; i++) memcpy(dst->a[i].coefsT, src->a[i].coefsT, 4 * N); dst->current_variance = src->current_variance; };
        auto expect = [&](const char *fn, double want_var, bool check_var, int p) {
            out.evaluations++;
            ref_tlwe_phase(got, r, key, N, k);
            for (int j = 0; j < N; j++) if (got[j] != want[j]) {
                out.viol(std::string("tlwe-linear:") + fn, J().s("fn", fn).i("N", N).i("k", k).i("p", p).i("coef", j).u("phase_got", got[j]).u("phase_want", want[j]));
                break;
            }
            if (check_var && !var_close(r->current_variance, want_var))
                out.viol(std::string("tlwe-variance:") + fn, J().s("fn", fn).i("N", N).i("k", k).i("p", p).d("var_got", r->current_variance).d("var_want", want_var));
        };
        VH_OP("tLweAddTo:N=%d:k=%d", N, k); load(r, c1); tLweAddTo(r, c2, P); for (int j = 0; j < N; j++) want[j] = ph1[j] + ph2[j]; expect("tLweAddTo", v1 + v2, true, 1);
        VH_OP("tLweSubTo:N=%d:k=%d", N, k); load(r, c1); tLweSubTo(r, c2, P); for (int j = 0; j < N; j++) want[j] = ph1[j] - ph2[j]; expect("tLweSubTo", v1 + v2, true, 1);
        for (int32_t p: ps) {
            bool cv = p > -32768 && p < 32768;
            VH_OP("tLweAddMulTo:N=%d:k=%d", N, k); load(r, c1); tLweAddMulTo(r, p, c2, P); for (int j = 0; j < N; j++) want[j] = ph1[j] + (U) p * ph2[j]; expect("tLweAddMulTo", v1 + (double) p * p * v2, cv, p);
            VH_OP("tLweSubMulTo:N=%d:k=%d", N, k); load(r, c1); tLweSubMulTo(r, p, c2, P); for (int j = 0; j < N; j++) want[j] = ph1[j] - (U) p * ph2[j]; expect("tLweSubMulTo", v1 + (double) p * p * v2, cv, p);
        }
        VH_OP("tLweCopy:N=%d:k=%d", N, k); fill_tlwe(r, N, k, RANDOM, 7.); tLweCopy(r, c2, P); want = ph2; expect("tLweCopy", v2, true, 0);
        VH_OP("tLweClear:N=%d:k=%d", N, k); fill_tlwe(r, N, k, RANDOM, 7.); tLweClear(r, P); want.assign(N, 0); expect("tLweClear", 0., true, 0);
        for (int j = 0; j < N; j++) mu->coefsT[j] = val(rep % NCL);
        VH_OP("tLweNoiselessTrivial:N=%d:k=%d", N, k); fill_tlwe(r, N, k, RANDOM, 7.); tLweNoiselessTrivial(r, mu, P); for (int j = 0; j < N; j++) want[j] = (U) mu->coefsT[j]; expect("tLweNoiselessTrivial", 0., true, 0);
        // aliasing
        VH_OP("tLweAddTo:alias:N=%d:k=%d", N, k); load(r, c1); tLweAddTo(r, r, P); for (int j = 0; j < N; j++) want[j] = 2u * ph1[j]; expect("tLweAddTo.alias", 2 * v1, true, 1);
        VH_OP("tLweSubTo:alias:N=%d:k=%d", N, k); load(r, c1); tLweSubTo(r, r, P); want.assign(N, 0); expect("tLweSubTo.alias", 2 * v1, true, 1);
        // add constant at position pos
        for (int pos = 0; pos <= k; pos++) {
            Torus32 x = val(rep % NCL);
            VH_OP("tLweAddTTo:N=%d:k=%d", N, k); load(r, c1); tLweAddTTo(r, pos, x, P);
            want = ph1;
            if (pos == k) want[0] += (U) x;
            else for (int j = 0; j < N; j++) want[j] -= (U) x * (U) key[pos].coefs[j];   // - x * s_pos
            expect("tLweAddTTo", v1, false, pos);
            for (int j = 0; j < N; j++) ip->coefs[j] = val(SMALLV);
            VH_OP("tLweAddRTTo:N=%d:k=%d", N, k); load(r, c1); tLweAddRTTo(r, pos, ip, x, P);
            want = ph1;
            if (pos == k) for (int j = 0; j < N; j++) want[j] += (U) ip->coefs[j] * (U) x;
            else {
                std::vector<int32_t> px(N); for (int j = 0; j < N; j++) px[j] = (int32_t) ((U) ip->coefs[j] * (U) x);
                ref_negacyclic(t, key[pos].coefs, px.data(), N);
                for (int j = 0; j < N; j++) want[j] -= t[j];
            }
            expect("tLweAddRTTo", v1, false, pos);
        }
        // multiply by X^a - 1
        int as[] = {0, 1, N - 1, N, N + 1, 2 * N - 1, (int) rng.below(2 * N), (int) rng.below(2 * N)};
        for (int a: as) {
            if (a < 0 || a >= 2 * N) continue;
            VH_OP("tLweMulByXaiMinusOne:N=%d:k=%d", N, k); fill_tlwe(r, N, k, RANDOM, 7.); tLweMulByXaiMinusOne(r, a, c1, P);
            std::vector<int32_t> p1(N); for (int j = 0; j < N; j++) p1[j] = (int32_t) ph1[j];
            ref_mul_xai(t, a, p1.data(), N);
            for (int j = 0; j < N; j++) want[j] = t[j] - ph1[j];
            expect("tLweMulByXaiMinusOne", 0, false, a);
        }
        snprintf(cell, sizeof cell, "tlwe:N=%d:k=%d:%s,%s:key%d", N, k, cname[ca], cname[cb], kcls); out.cell(cell);
    }
    delete_TorusPolynomial(mu); delete_IntPolynomial(ip); delete_IntPolynomial_array(k, key);
    delete_TLweSample(r); delete_TLweSample(c2); delete_TLweSample(c1); delete_TLweParams(P);
}

// extraction: for EVERY index j, LWE phase under the extracted key == coefficient j of the exact TLWE phase
static void extraction(int N, int k, int reps) {
    TLweParams *P = new_TLweParams(N, k, 0.001, 0.25);
    const LweParams *LP = &P->extracted_lweparams;
    TLweKey *K = new_TLweKey(P);
    LweKey *EK = new_LweKey(LP);
    TLweSample *c = new_TLweSample(P);
    GuardedLwe g(LP);
    std::vector<U> ph;
    char cell[96];
    for (int rep = 0; rep < reps; rep++) {
        int kcls = rep % 2;
        for (int i = 0; i < k; i++) for (int j = 0; j < N; j++) K->key[i].coefs[j] = kcls == 0 ? (int32_t) rng.below(2) : rng.i32();
        VH_OP("tLweExtractKey:N=%d:k=%d", N, k);
        tLweExtractKey(EK, K);
        fill_tlwe(c, N, k, rep % NCL, 0.25 * rep);
        std::vector<uint64_t> snap;
        for (int i = 0; i <= k; i++) snap.push_back(fnv1a(c->a[i].coefsT, 4 * N));
        ref_tlwe_phase(ph, c, K->key, N, k);
        for (int j = 0; j < N; j++) {
            VH_OP("tLweExtractLweSampleIndex:N=%d:k=%d", N, k);
            for (int i = 0; i < k * N; i++) g.s->a[i] = rng.i32();
            tLweExtractLweSampleIndex(g.s, c, j, LP, P);
            U got = ref_lwe_phase(g.s, EK->key, k * N);
            out.evaluations++;
            if (got != ph[j]) {
                out.viol("extract:phase", J().i("N", N).i("k", k).i("index", j).u("lwe_phase", got).u("tlwe_phase_coef", ph[j]).i("keyclass", kcls));
                break;
            }
        }
        VH_OP("tLweExtractLweSample:N=%d:k=%d", N, k);
        tLweExtractLweSample(g.s, c, LP, P);
        out.evaluations++;
        if (ref_lwe_phase(g.s, EK->key, k * N) != ph[0]) out.viol("extract:phase0", J().i("N", N).i("k", k));
        for (int i = 0; i <= k; i++) if (snap[i] != fnv1a(c->a[i].coefsT, 4 * N)) out.viol("extract:input-modified", J().i("N", N).i("k", k).i("poly", i));
        if (!g.g.canary_ok()) out.viol("extract:underrun", J().i("N", N).i("k", k));
        snprintf(cell, sizeof cell, "extract:N=%d:k=%d:all-j:key%d", N, k, kcls); out.cell(cell);
    }
    delete_TLweSample(c); delete_LweKey(EK); delete_TLweKey(K); delete_TLweParams(P);
}

static std::vector<int> parse_list(const std::string &s) {
    std::vector<int> v; std::stringstream ss(s); std::string t;
    while (std::getline(ss, t, ',')) if (!t.empty()) v.push_back(atoi(t.c_str()));
    return v;
}

static void ref_tlwe_phase_flat(std::vector<U> &ph, const TLweSample *c, const int32_t *key, int N, int k) {
    ph.resize(N); for (int j = 0; j < N; j++) ph[j] = (U) c->a[k].coefsT[j];
    std::vector<U> t; for (int i = 0; i < k; i++) { ref_negacyclic(t, key + i * N, c->a[i].coefsT, N); for (int j = 0; j < N; j++) ph[j] -= t[j]; }
}
// several threads at once, each with its own dimensions: LWE linear operations (own n), TLWE linear operations and extraction (own
// N, k); every result judged by thread-local exact phase arithmetic
static void threads_mode(uint64_t seed, int T, int iters) {
    const int ns[] = {1, 7, 8, 9, 33, 500, 630, 12, 1024, 5, 17, 64}; const int Ns[] = {2, 16, 64, 3, 1024, 100, 8, 512};
    std::atomic<uint64_t> bad{0}, calls{0}; std::atomic<int> ready{0};
    struct Wit { const char *fn; int dim; }; std::vector<Wit> wit(T, Wit{nullptr, 0});
    std::vector<std::thread> th;
    for (int t = 0; t < T; t++) th.emplace_back([&, t] {
        Rng r(seed * 4801 + t); const int n = ns[t % 12], N = Ns[t % 8], k = 1 + t % 2;
        LweParams *P = new_LweParams(n, 0.001, 0.25); LweSample *a = new_LweSample(P), *b = new_LweSample(P), *c = new_LweSample(P);
        TLweParams *TP = new_TLweParams(N, k, 0.001, 0.25); TLweSample *ta = new_TLweSample(TP), *tb = new_TLweSample(TP); LweSample *ex = new_LweSample(&TP->extracted_lweparams);
        std::vector<int32_t> key(n), tkey(k * N), ext(k * N); for (auto &x: key) x = (int32_t) r.below(2); for (auto &x: tkey) x = (int32_t) r.below(2);
        // extracted key: coefficient order of tLweExtractKey (key i, coefficient j -> i*N + j)
        for (int i = 0; i < k * N; i++) ext[i] = tkey[i];
        auto fail = [&](const char *fn, int dim) { if (bad++ == 0) wit[t] = Wit{fn, dim}; };
        ready++; while (ready.load() < T) sched_yield();
        for (int it = 0; it < iters; it++) {
            for (int i = 0; i < n; i++) { a->a[i] = r.i32(); b->a[i] = r.i32(); } a->b = r.i32(); b->b = r.i32(); a->current_variance = b->current_variance = 1e-6;
            U pa = ref_lwe_phase(a, key.data(), n), pb = ref_lwe_phase(b, key.data(), n); int32_t p = it % 5 == 0 ? 2 : it % 5 == 1 ? -2 : (int32_t) r.range(-32767, 32767);
            lweCopy(c, a, P); lweAddMulTo(c, p, b, P); if (ref_lwe_phase(c, key.data(), n) != pa + (U) p * pb) fail("lweAddMulTo", n);
            lweCopy(c, a, P); lweSubTo(c, b, P); if (ref_lwe_phase(c, key.data(), n) != pa - pb) fail("lweSubTo", n);
            lweNegate(c, a, P); if (ref_lwe_phase(c, key.data(), n) != (U) 0 - pa) fail("lweNegate", n);
            for (int i = 0; i <= k; i++) for (int j = 0; j < N; j++) { ta->a[i].coefsT[j] = r.i32(); tb->a[i].coefsT[j] = r.i32(); } ta->current_variance = tb->current_variance = 1e-6;
            std::vector<U> ph, phb; ref_tlwe_phase_flat(ph, ta, tkey.data(), N, k); ref_tlwe_phase_flat(phb, tb, tkey.data(), N, k);
            int j = (int) r.below(N); tLweExtractLweSampleIndex(ex, ta, j, &TP->extracted_lweparams, TP);
            if (ref_lwe_phase(ex, ext.data(), k * N) != ph[j]) fail("tLweExtractLweSampleIndex", N);
            tLweAddTo(ta, tb, TP); std::vector<U> ps; ref_tlwe_phase_flat(ps, ta, tkey.data(), N, k);
            for (int q = 0; q < N; q++) if (ps[q] != ph[q] + phb[q]) { fail("tLweAddTo", N); break; }
            calls += 5;
        }
        delete_LweSample(ex); delete_TLweSample(tb); delete_TLweSample(ta); delete_TLweParams(TP); delete_LweSample(c); delete_LweSample(b); delete_LweSample(a); delete_LweParams(P);
    });
    for (auto &x: th) x.join();
    out.evaluations += calls.load();
    if (bad.load()) for (auto &w: wit) if (w.fn) { out.viol(std::string("lwe-linear:") + w.fn + ":when-threads-use-different-dimensions", J().s("fn", w.fn).i("dimension", w.dim).i("threads", T).u("bad_results", bad.load())); break; }
    char cell[96]; snprintf(cell, sizeof cell, "threads:%d-threads-each-with-its-own-dimensions", T); out.cell(cell, calls.load());
    out.sample(J().s("mode", "threads").i("threads", T).i("iterations_per_thread", iters));
}

int main(int argc, char **argv) {
    Args args(argc, argv);
    out.open(args.s("out", "-"));
    install_crash_handler();
    uint64_t seed = args.i("seed", 1);
    std::string mode = args.s("mode", "lwe");
    int reps = args.i("reps", 12);
    rng.reseed(seed * 1000003ull + fnv1a(mode.data(), mode.size()) % 1000 + args.i("salt", 0));
    // where objects live: as malloc places them, or successive blocks taken in turn from regions terabytes apart
    { int hp = args.i("heapphase", -1); set_heap_phase(hp); out.cell(hp == 100 ? "heap:blocks-spread-over-distant-regions" : hp < 0 ? "heap:as-malloc-places-it" : "heap:fixed-residue-mod-32"); }
    // process history: the same operations in other dimensions come first
    if (args.i("prelude", 0)) { lwe_ops(13, 2); lwe_ops(6, 2); tlwe_ops(32, 2, 1); extraction(4, 3, 1); out.cell("history:other-dimensions-used-first-in-this-process"); }
    if (mode == "threads") { threads_mode(seed, args.i("threads", 12), reps); out.finish(); return 0; }
    if (mode == "lwe") {
        for (int n: parse_list(args.s("n", "1,2,3"))) lwe_ops(n, reps);
        out.sample(J().s("mode", "lwe").s("n", args.s("n")).i("reps", reps).s("ops", "AddTo,SubTo,AddMulTo,SubMulTo,Copy,Negate,Clear,NoiselessTrivial,aliased AddTo/SubTo/Negate/AddMulTo,lwePhase").s("p_values", "0,+-1,+-2,+-32767,INT32_MIN,INT32_MAX,random"));
    } else if (mode == "tlwe") {
        for (int N: parse_list(args.s("N", "2,4"))) for (int k: parse_list(args.s("k", "1,2,3"))) tlwe_ops(N, k, reps);
        out.sample(J().s("mode", "tlwe").s("N", args.s("N")).s("k", args.s("k", "1,2,3")).i("reps", reps));
    } else if (mode == "extract") {
        for (int N: parse_list(args.s("N", "2,4"))) for (int k: parse_list(args.s("k", "1,2,3"))) extraction(N, k, reps);
        out.sample(J().s("mode", "extract: every index j in [0,N)").s("N", args.s("N")).s("k", args.s("k", "1,2,3")).i("reps", reps));
    }
    out.finish();
    return 0;
}
