// C15: evaluation leaves inputs and keys untouched, accepts an output that aliases an input, and uses no randomness.
#include "gates.hpp"
#include <sstream>
#include <thread>
#include <sys/wait.h>
#include <sys/stat.h>
VH_MAIN_GLOBALS
using namespace vh;

static Rng rng;

static inline uint64_t fast_hash(const void *p, size_t n, uint64_t h = 0x9E3779B97F4A7C15ULL) {
    const uint8_t *b = (const uint8_t *) p; size_t i = 0;
    for (; i + 8 <= n; i += 8) { uint64_t w; memcpy(&w, b + i, 8); h = (h ^ w) * 0xFF51AFD7ED558CCDULL; h ^= h >> 29; }
    for (; i < n; i++) { h = (h ^ b[i]) * 0x100000001B3ULL; }
    return h;
}

struct KeySnap { uint64_t ks = 0, ks2 = 0, bk = 0, bkfft = 0, params = 0, ksvar = 0; };

struct World {
    const TFheGateBootstrappingParameterSet *gb; TFheGateBootstrappingSecretKeySet *sk; const TFheGateBootstrappingCloudKeySet *ck; std::string cfg;
    int n, N, k, l, t, base, kpl;
    KeySnap snap() const {
        KeySnap s; const LweKeySwitchKey *ks = ck->bk->ks, *ks2 = ck->bkFFT->ks;
        for (int r = 0; r < k * N * t * base; r++) { s.ks = fast_hash(ks->ks0_raw[r].a, 4 * n, s.ks); s.ks = fast_hash(&ks->ks0_raw[r].b, 4, s.ks); s.ksvar = fast_hash(&ks->ks0_raw[r].current_variance, 8, s.ksvar);
            s.ks2 = fast_hash(ks2->ks0_raw[r].a, 4 * n, s.ks2); s.ks2 = fast_hash(&ks2->ks0_raw[r].b, 4, s.ks2); }
        for (int i = 0; i < n; i++) for (int r = 0; r < kpl; r++) {
            for (int q = 0; q <= k; q++) { s.bk = fast_hash(ck->bk->bk[i].all_sample[r].a[q].coefsT, 4 * N, s.bk); s.bkfft = fast_hash(ck->bkFFT->bkFFT[i].all_samples[r].a[q].data, 8 * N, s.bkfft); }
            s.bk = fast_hash(&ck->bk->bk[i].all_sample[r].current_variance, 8, s.bk); }
        const TGswParams *g = gb->tgsw_params; const TLweParams *tl = g->tlwe_params; const LweParams *io = gb->in_out_params;
        s.params = fast_hash(g->h, 4 * g->l, fast_hash(&g->offset, 4, fast_hash(&g->maskMod, 4, fast_hash(&g->halfBg, 4, fast_hash(&g->Bg, 4, fast_hash(&g->kpl, 4))))));
        s.params = fast_hash(&tl->alpha_min, 8, fast_hash(&tl->N, 4, fast_hash(&io->alpha_min, 8, fast_hash(&io->n, 4, fast_hash(&gb->ks_t, 4, fast_hash(&gb->ks_basebit, 4, s.params))))));
        return s;
    }
};

static std::string gen_state() { std::ostringstream os; os << generator; return os.str(); }

static void cmp_keys(const World &w, const KeySnap &a, const KeySnap &b, const char *op) {
    out.evaluations++;
    const char *what = nullptr;
    if (a.ks != b.ks) what = "key-switching-rows"; else if (a.ks2 != b.ks2) what = "key-switching-rows(bkFFT copy)"; else if (a.bk != b.bk) what = "bootstrapping-rows";
    else if (a.bkfft != b.bkfft) what = "bootstrapping-rows-FFT-image"; else if (a.params != b.params) what = "parameters"; else if (a.ksvar != b.ksvar) what = "key-switching-row-variance";
    if (what) out.viol(std::string("untouched:key-modified:") + op, J().s("config", w.cfg).s("op", op).s("object", what));
}

struct CtSnap { std::vector<int32_t> a; int32_t b; double v; };
static CtSnap snap_ct(const LweSample *c, int n) { CtSnap s; s.a.assign(c->a, c->a + n); s.b = c->b; s.v = c->current_variance; return s; }
static bool same_ct(const LweSample *c, const CtSnap &s, int n, int *off) {
    for (int i = 0; i < n; i++) if (c->a[i] != s.a[i]) { *off = i; return false; }
    if (c->b != s.b) { *off = n; return false; } if (memcmp(&c->current_variance, &s.v, 8)) { *off = n + 1; return false; } return true;
}

// ---- gates: inputs/keys/generator untouched; aliasing patterns bit-identical to disjoint evaluation
static void gates(World &w, int reps, bool snapshot_keys_every) {
    const int n = w.n;
    LweSample *in = new_gate_bootstrapping_ciphertext_array(3, w.gb), *cp = new_gate_bootstrapping_ciphertext_array(3, w.gb), *ref = new_gate_bootstrapping_ciphertext(w.gb), *r = new_gate_bootstrapping_ciphertext(w.gb);
    KeySnap k0 = w.snap();
    for (int rep = 0; rep < reps; rep++) for (int g = 0; g < G_COUNT; g++) {
        const GateSpec &gs = GATES[g];
        int v[3] = {(int) rng.below(2), (int) rng.below(2), (int) rng.below(2)};
        for (int i = 0; i < 3; i++) bootsSymEncrypt(in + i, v[i], w.sk);
        // every other repetition: inputs whose combination inside the gate sits exactly on rounding ties of the modulus switch
        // (mask words of the 2nd and 3rd operand multiples of the interval width 2^32/2N, those of the 1st operand half-way, or
        // a quarter-way for the gates that double the sum); the phases are put back in place with the secret key
        if (rep & 1) {
            const uint32_t width = (uint32_t) (4294967296.0 / (2 * w.N)), lowmask = width - 1;
            for (int i = 0; i < n; i++) {
                in[1].a[i] = (int32_t) ((uint32_t) in[1].a[i] & ~lowmask); in[2].a[i] = (int32_t) ((uint32_t) in[2].a[i] & ~lowmask);
                in[0].a[i] = (int32_t) (((uint32_t) in[0].a[i] & ~lowmask) | ((i & 1) ? width / 4 : width / 2));
            }
            in[1].b = (int32_t) ((uint32_t) in[1].b & ~lowmask); in[0].b = (int32_t) (((uint32_t) in[0].b & ~lowmask) | width / 2);
            for (int i = 0; i < 3; i++) inject_phase(in + i, v[i], rng.range(-(1 << 24), 1 << 24), w.sk);
            out.cell(w.cfg + ":inputs-on-exact-rounding-ties-of-the-modulus-switch:" + gs.name);
        }
        CtSnap s0 = snap_ct(in, n), s1 = snap_ct(in + 1, n), s2 = snap_ct(in + 2, n);
        std::string g0 = gen_state();
        VH_OP("boots%s:%s:disjoint", gs.name, w.cfg.c_str());
        gate_eval(g, ref, in, in + 1, in + 2, v[0], w.ck);
        out.evaluations++;
        int off;
        if (!same_ct(in, s0, n, &off) || (gs.arity >= 2 && !same_ct(in + 1, s1, n, &off)) || (gs.arity >= 3 && !same_ct(in + 2, s2, n, &off)))
            out.viol(std::string("untouched:input-ciphertext-modified:boots") + gs.name, J().s("config", w.cfg).s("gate", gs.name).i("offset", off));
        if (gen_state() != g0) out.viol(std::string("untouched:generator-advanced:boots") + gs.name, J().s("config", w.cfg).s("gate", gs.name));
        if (snapshot_keys_every || rep == 0) cmp_keys(w, k0, w.snap(), (std::string("boots") + gs.name).c_str());
        if (bootsSymDecrypt(ref, w.sk) != gate_truth(g, v[0], v[1], v[2])) out.viol(std::string("untouched:wrong-result:boots") + gs.name, J().s("config", w.cfg));
        // determinism: the same call again gives the same bits
        gate_eval(g, r, in, in + 1, in + 2, v[0], w.ck);
        out.evaluations++;
        if (memcmp(r->a, ref->a, 4 * n) || r->b != ref->b) out.viol(std::string("untouched:not-deterministic:boots") + gs.name, J().s("config", w.cfg));
        // aliasing patterns
        struct Pat { const char *name; int res; bool ab, bc, all; };   // res: index of the input that is also the result (-1 none)
        std::vector<Pat> pats;
        if (gs.arity >= 1) pats.push_back({"result=a", 0, false, false, false});
        if (gs.arity >= 2) { pats.push_back({"result=b", 1, false, false, false}); pats.push_back({"a=b", -1, true, false, false}); pats.push_back({"result=a=b", 0, true, false, false}); }
        if (gs.arity >= 3) { pats.push_back({"result=c", 2, false, false, false}); pats.push_back({"b=c", -1, false, true, false}); pats.push_back({"all-the-same-object", 0, false, false, true}); }
        for (auto &p: pats) {
            for (int i = 0; i < 3; i++) lweCopy(cp + i, in + i, w.gb->in_out_params);
            LweSample *A = cp, *B = cp + 1, *C = cp + 2; int va = v[0], vb = v[1], vc = v[2];
            if (p.ab) { B = A; vb = va; } if (p.bc) { C = B; vc = vb; } if (p.all) { B = A; C = A; vb = va; vc = va; }
            // disjoint reference for exactly these operand values
            LweSample *d = new_gate_bootstrapping_ciphertext_array(4, w.gb);
            lweCopy(d, A, w.gb->in_out_params); lweCopy(d + 1, B, w.gb->in_out_params); lweCopy(d + 2, C, w.gb->in_out_params);
            gate_eval(g, d + 3, d, d + 1, d + 2, va, w.ck);
            LweSample *R = p.res == 0 ? A : p.res == 1 ? B : p.res == 2 ? C : r;
            VH_OP("boots%s:%s:%s", gs.name, w.cfg.c_str(), p.name);
            gate_eval(g, R, A, B, C, va, w.ck);
            out.evaluations++;
            bool same = memcmp(R->a, d[3].a, 4 * n) == 0 && R->b == d[3].b;
            int dec = bootsSymDecrypt(R, w.sk), want = gate_truth(g, va, vb, vc);
            if (!same || dec != want)
                out.viol(std::string("aliasing:boots") + gs.name + ":" + p.name, J().s("config", w.cfg).s("gate", gs.name).s("pattern", p.name).b("bit_identical_to_disjoint", same).i("decrypted", dec).i("truth", want));
            char cell[128]; snprintf(cell, sizeof cell, "%s:alias:%s:%s", w.cfg.c_str(), gs.name, p.name); out.cell(cell);
            delete_gate_bootstrapping_ciphertext_array(4, d);
        }
        char cell[128]; snprintf(cell, sizeof cell, "%s:untouched:boots%s", w.cfg.c_str(), gs.name); out.cell(cell);
    }
    delete_gate_bootstrapping_ciphertext(r); delete_gate_bootstrapping_ciphertext(ref); delete_gate_bootstrapping_ciphertext_array(3, cp); delete_gate_bootstrapping_ciphertext_array(3, in);
}

static uint64_t hash_tlwe(const TLweSample *s, int N, int k) { uint64_t h = 1; for (int i = 0; i <= k; i++) h = fast_hash(s->a[i].coefsT, 4 * N, h); return fast_hash(&s->current_variance, 8, h); }
static uint64_t hash_tgsw(const TGswSample *s, const TGswParams *p) { uint64_t h = 2; for (int r = 0; r < p->kpl; r++) h ^= hash_tlwe(&s->all_sample[r], p->tlwe_params->N, p->tlwe_params->k) * (r + 3); return h; }
static uint64_t hash_tgswfft(const TGswSampleFFT *s, const TGswParams *p) { uint64_t h = 3; for (int r = 0; r < p->kpl; r++) for (int q = 0; q <= p->tlwe_params->k; q++) h = fast_hash(s->all_samples[r].a[q].data, 8 * p->tlwe_params->N, h); return h; }

// ---- lower-level evaluation functions
static void lowlevel(World &w, int reps) {
    const int n = w.n, N = w.N, k = w.k;
    const TGswParams *tg = w.gb->tgsw_params; const TLweParams *tl = tg->tlwe_params; const LweParams *ext = &tl->extracted_lweparams;
    LweSample *x = new_LweSample(w.gb->in_out_params), *y = new_LweSample(w.gb->in_out_params), *u = new_LweSample(ext), *u2 = new_LweSample(ext);
    TorusPolynomial *v = new_TorusPolynomial(N);
    TLweSample *acc = new_TLweSample(tl), *acc2 = new_TLweSample(tl);
    IntPolynomial *dec = new_IntPolynomial_array(tg->kpl, N);
    std::vector<int32_t> bara(n);
    KeySnap k0 = w.snap();
    for (int rep = 0; rep < reps; rep++) {
        bootsSymEncrypt(x, rep & 1, w.sk);
        CtSnap sx = snap_ct(x, n); std::string g0 = gen_state(); int off;
        auto after = [&](const char *op, bool check_x = true) {
            out.evaluations++;
            if (check_x && !same_ct(x, sx, n, &off)) out.viol(std::string("untouched:input-ciphertext-modified:") + op, J().s("config", w.cfg).i("offset", off));
            if (gen_state() != g0) out.viol(std::string("untouched:generator-advanced:") + op, J().s("config", w.cfg));
            cmp_keys(w, k0, w.snap(), op);
            char cell[128]; snprintf(cell, sizeof cell, "%s:untouched:%s", w.cfg.c_str(), op); out.cell(cell);
        };
        Torus32 mu = 1 << 29;
        VH_OP("tfhe_bootstrap_FFT:%s", w.cfg.c_str()); tfhe_bootstrap_FFT(y, w.ck->bkFFT, mu, x); after("tfhe_bootstrap_FFT");
        VH_OP("tfhe_bootstrap_woKS_FFT:%s", w.cfg.c_str()); tfhe_bootstrap_woKS_FFT(u, w.ck->bkFFT, mu, x); after("tfhe_bootstrap_woKS_FFT");
        VH_OP("tfhe_bootstrap:%s", w.cfg.c_str()); tfhe_bootstrap(y, w.ck->bk, mu, x); after("tfhe_bootstrap");
        VH_OP("tfhe_bootstrap_woKS:%s", w.cfg.c_str()); tfhe_bootstrap_woKS(u, w.ck->bk, mu, x); after("tfhe_bootstrap_woKS");
        // key switch: input u untouched
        { CtSnap su = snap_ct(u, k * N); VH_OP("lweKeySwitch:%s", w.cfg.c_str()); lweKeySwitch(y, w.ck->bk->ks, u); after("lweKeySwitch");
          if (!same_ct(u, su, k * N, &off)) out.viol("untouched:input-ciphertext-modified:lweKeySwitch", J().s("config", w.cfg).i("offset", off)); }
        // blind rotate and extract with a test polynomial
        for (int j = 0; j < N; j++) v->coefsT[j] = rng.i32();
        for (int i = 0; i < n; i++) bara[i] = rng.below(2 * N);
        uint64_t hv = fast_hash(v->coefsT, 4 * N), hb = fast_hash(bara.data(), 4 * n);
        VH_OP("tfhe_blindRotateAndExtract_FFT:%s", w.cfg.c_str()); tfhe_blindRotateAndExtract_FFT(u, v, w.ck->bkFFT->bkFFT, (int) rng.below(2 * N), bara.data(), n, tg); after("tfhe_blindRotateAndExtract_FFT");
        VH_OP("tfhe_blindRotateAndExtract:%s", w.cfg.c_str()); tfhe_blindRotateAndExtract(u2, v, w.ck->bk->bk, (int) rng.below(2 * N), bara.data(), n, tg); after("tfhe_blindRotateAndExtract");
        // the boundary values of the rotation amount (0: nothing to rotate, N: sign change only) and of the exponents
        for (int barb: {0, 1, N - 1, N, N + 1, 2 * N - 1}) {
            for (int i = 0; i < n; i++) bara[i] = barb == 1 ? 0 : (int32_t) rng.below(2 * N);      // once with all exponents zero
            hb = fast_hash(bara.data(), 4 * n);
            VH_OP("tfhe_blindRotateAndExtract_FFT:barb=%d:%s", barb, w.cfg.c_str()); tfhe_blindRotateAndExtract_FFT(u, v, w.ck->bkFFT->bkFFT, barb, bara.data(), n, tg);
            out.evaluations++;
            if (fast_hash(v->coefsT, 4 * N) != hv) { out.viol("untouched:test-polynomial-modified:tfhe_blindRotateAndExtract_FFT", J().s("config", w.cfg).i("barb", barb)); for (int j = 0; j < N; j++) v->coefsT[j] = rng.i32(); hv = fast_hash(v->coefsT, 4 * N); }
            VH_OP("tfhe_blindRotateAndExtract:barb=%d:%s", barb, w.cfg.c_str()); tfhe_blindRotateAndExtract(u2, v, w.ck->bk->bk, barb, bara.data(), n, tg);
            out.evaluations++;
            if (fast_hash(v->coefsT, 4 * N) != hv) { out.viol("untouched:test-polynomial-modified:tfhe_blindRotateAndExtract", J().s("config", w.cfg).i("barb", barb)); for (int j = 0; j < N; j++) v->coefsT[j] = rng.i32(); hv = fast_hash(v->coefsT, 4 * N); }
            if (fast_hash(bara.data(), 4 * n) != hb) out.viol("untouched:exponent-vector-modified:tfhe_blindRotateAndExtract", J().s("config", w.cfg).i("barb", barb));
        }
        after("tfhe_blindRotateAndExtract(boundary rotation amounts)");
        out.evaluations++;
        if (fast_hash(v->coefsT, 4 * N) != hv) out.viol("untouched:test-polynomial-modified:tfhe_blindRotateAndExtract", J().s("config", w.cfg));
        if (fast_hash(bara.data(), 4 * n) != hb) out.viol("untouched:exponent-vector-modified:tfhe_blindRotateAndExtract", J().s("config", w.cfg));
        // blind rotate in place on an accumulator (the accumulator is the in/out argument; keys untouched)
        for (int i = 0; i <= k; i++) for (int j = 0; j < N; j++) acc->a[i].coefsT[j] = rng.i32();
        VH_OP("tfhe_blindRotate_FFT:%s", w.cfg.c_str()); tfhe_blindRotate_FFT(acc, w.ck->bkFFT->bkFFT, bara.data(), n, tg); after("tfhe_blindRotate_FFT");
        VH_OP("tfhe_blindRotate:%s", w.cfg.c_str()); tfhe_blindRotate(acc, w.ck->bk->bk, bara.data(), n, tg); after("tfhe_blindRotate");
        // extraction: TLWE input untouched
        { uint64_t ha = hash_tlwe(acc, N, k); VH_OP("tLweExtractLweSample:%s", w.cfg.c_str()); tLweExtractLweSample(u, acc, ext, tl); tLweExtractLweSampleIndex(u2, acc, (int) rng.below(N), ext, tl); after("tLweExtractLweSample(Index)");
          if (hash_tlwe(acc, N, k) != ha) out.viol("untouched:tlwe-input-modified:tLweExtractLweSample", J().s("config", w.cfg)); }
        // external products: TGSW operand (a bootstrapping-key entry) and TLWE operand untouched
        { const TGswSample *A = &w.ck->bk->bk[rep % n]; const TGswSampleFFT *AF = &w.ck->bkFFT->bkFFT[rep % n];
          uint64_t hA = hash_tgsw(A, tg), hAF = hash_tgswfft(AF, tg), hc = hash_tlwe(acc, N, k);
          VH_OP("tGswExternProduct:%s", w.cfg.c_str()); tGswExternProduct(acc2, A, acc, tg); after("tGswExternProduct");
          if (hash_tlwe(acc, N, k) != hc) out.viol("untouched:tlwe-input-modified:tGswExternProduct", J().s("config", w.cfg));
          VH_OP("tGswExternMulToTLwe:%s", w.cfg.c_str()); tGswExternMulToTLwe(acc2, A, tg); after("tGswExternMulToTLwe");
          VH_OP("tGswFFTExternMulToTLwe:%s", w.cfg.c_str()); tGswFFTExternMulToTLwe(acc2, AF, tg); after("tGswFFTExternMulToTLwe");
          if (hash_tgsw(A, tg) != hA || hash_tgswfft(AF, tg) != hAF) out.viol("untouched:tgsw-input-modified:extern-products", J().s("config", w.cfg)); }
        // the same with operands of special shapes: a noiseless trivial sample (zero mask), the all-zero sample, a sample with one
        // non-zero coefficient, one with a single zero polynomial among random ones
        for (int shape = 0; shape < 4; shape++) {
            for (int i = 0; i <= k; i++) for (int j = 0; j < N; j++) acc->a[i].coefsT[j] = shape == 0 ? (i == k ? rng.i32() : 0) : shape == 1 ? 0 : shape == 2 ? 0 : (i == 0 ? 0 : rng.i32());
            if (shape == 2) acc->a[(int) rng.below(k + 1)].coefsT[(int) rng.below(N)] = rng.i32() | 1;
            const TGswSample *A = &w.ck->bk->bk[(rep + shape) % n]; const TGswSampleFFT *AF = &w.ck->bkFFT->bkFFT[(rep + shape) % n];
            uint64_t hc = hash_tlwe(acc, N, k); static const char *sn[] = {"noiseless-trivial", "all-zero", "one-non-zero-coefficient", "one-zero-polynomial"};
            VH_OP("tGswExternProduct(%s operand):%s", sn[shape], w.cfg.c_str()); tGswExternProduct(acc2, A, acc, tg);
            tGswTLweDecompH(dec, acc, tg); for (int i = 0; i <= k; i++) tGswTorus32PolynomialDecompH(dec, &acc->a[i], tg);
            out.evaluations++;
            if (hash_tlwe(acc, N, k) != hc) out.viol("untouched:tlwe-input-modified:tGswExternProduct/decomposition", J().s("config", w.cfg).s("operand", sn[shape]));
            (void) AF;
        }
        for (int i = 0; i <= k; i++) for (int j = 0; j < N; j++) acc->a[i].coefsT[j] = rng.i32();
        // decompositions: the decomposed sample is an input (the implementation shifts it temporarily and must restore it)
        { uint64_t hc = hash_tlwe(acc, N, k); VH_OP("tGswTLweDecompH:%s", w.cfg.c_str()); tGswTLweDecompH(dec, acc, tg); after("tGswTLweDecompH");
          tGswTorus32PolynomialDecompH(dec, acc->b, tg); after("tGswTorus32PolynomialDecompH");
          if (hash_tlwe(acc, N, k) != hc) out.viol("untouched:tlwe-input-modified:decomposition", J().s("config", w.cfg)); }
    }
    delete_IntPolynomial_array(tg->kpl, dec); delete_TLweSample(acc2); delete_TLweSample(acc); delete_TorusPolynomial(v);
    delete_LweSample(u2); delete_LweSample(u); delete_LweSample(y); delete_LweSample(x);
}

// the same snapshots around evaluations that are the FIRST use of the FFT on a freshly created thread (per-thread state is
// built lazily by whatever call comes first; that construction must not touch keys, inputs or the generator either)
static void fresh_thread_evaluations(World &w, int reps) {
    const int n = w.n;
    LweSample *in = new_gate_bootstrapping_ciphertext_array(3, w.gb);
    for (int i = 0; i < 3; i++) bootsSymEncrypt(in + i, i & 1, w.sk);
    KeySnap k0 = w.snap();
    for (int rep = 0; rep < reps; rep++) {
        int g = rep % (G_MUX + 1);
        CtSnap s0 = snap_ct(in, n), s1 = snap_ct(in + 1, n), s2 = snap_ct(in + 2, n);
        std::string g0 = gen_state();
        std::vector<uint8_t> res;
        std::thread t([&] { LweSample *r = new_gate_bootstrapping_ciphertext(w.gb); gate_eval(g, r, in, in + 1, in + 2, 1, w.ck);
                            res.assign((uint8_t *) r->a, (uint8_t *) (r->a + n)); delete_gate_bootstrapping_ciphertext(r); });
        t.join();
        out.evaluations++;
        int off;
        std::string op = std::string("boots") + GATES[g].name + "(first-FFT-use-of-a-new-thread)";
        if (gen_state() != g0) out.viol("untouched:generator-advanced:" + op, J().s("config", w.cfg).s("gate", GATES[g].name));
        if (!same_ct(in, s0, n, &off) || !same_ct(in + 1, s1, n, &off) || !same_ct(in + 2, s2, n, &off)) out.viol("untouched:input-ciphertext-modified:" + op, J().s("config", w.cfg));
        cmp_keys(w, k0, w.snap(), op.c_str());
        // and the result equals the one computed on this (long-lived) thread
        LweSample *r = new_gate_bootstrapping_ciphertext(w.gb); gate_eval(g, r, in, in + 1, in + 2, 1, w.ck);
        if (memcmp(r->a, res.data(), 4 * n)) out.viol("untouched:not-deterministic:" + op, J().s("config", w.cfg));
        delete_gate_bootstrapping_ciphertext(r);
        char cell[128]; snprintf(cell, sizeof cell, "%s:untouched:fresh-thread:boots%s", w.cfg.c_str(), GATES[g].name); out.cell(cell);
    }
    // a low-level entry point as first use as well
    { std::string g0 = gen_state(); TorusPolynomial *a = new_TorusPolynomial(1024), *r = new_TorusPolynomial(1024); IntPolynomial *ip = new_IntPolynomial(1024);
      for (int j = 0; j < 1024; j++) { a->coefsT[j] = rng.i32(); ip->coefs[j] = (int32_t) rng.range(-4, 4); }
      std::thread t([&] { torusPolynomialMultFFT(r, ip, a); }); t.join(); out.evaluations++;
      if (gen_state() != g0) out.viol("untouched:generator-advanced:torusPolynomialMultFFT(first-FFT-use-of-a-new-thread)", J().s("config", w.cfg));
      delete_IntPolynomial(ip); delete_TorusPolynomial(r); delete_TorusPolynomial(a); }
    delete_gate_bootstrapping_ciphertext_array(3, in);
}

// the server role: a process that never seeds the generator, never generates a key and never encrypts. A forked child plays the
// client (seeds, generates, encrypts, exports to files); this process only imports the cloud key and the ciphertexts and
// evaluates. The generator is still in the state it had when the process started, and must stay there; the first evaluation of
// the process is the interesting one, so every run starts with another entry point (--first).
static int server_role(Args &args) {
    uint64_t seed = args.i("seed", 1); int lambda = args.i("lambda", 0), first = args.i("first", 0);
    std::string op = args.s("out", "-"); size_t sl = op.rfind('/');
    char dir[512]; snprintf(dir, sizeof dir, "%s/c15-server-%d", sl == std::string::npos ? "/tmp" : op.substr(0, sl).c_str(), (int) getpid());
    mkdir(dir, 0700);
    std::string kf = std::string(dir) + "/cloud.key", sf = std::string(dir) + "/secret.key", cf = std::string(dir) + "/inputs.ct";
    fflush(out.f);
    pid_t pid = fork();
    if (pid == 0) {
        seed_library(seed * 23 + 1);
        TFheGateBootstrappingParameterSet *dp = nullptr; PSet *ps = nullptr; const TFheGateBootstrappingParameterSet *gb;
        if (lambda) { dp = default_params(lambda); gb = dp; } else { ps = new PSet(10, 1024, 1, 3, 7, 4, 3, ldexp(1., -20), ldexp(1., -30)); gb = ps->gb; }
        TFheGateBootstrappingSecretKeySet *sk = new_random_gate_bootstrapping_secret_keyset(gb);
        FILE *f = fopen(kf.c_str(), "wb"); export_tfheGateBootstrappingCloudKeySet_toFile(f, &sk->cloud); fclose(f);
        f = fopen(sf.c_str(), "wb"); export_tfheGateBootstrappingSecretKeySet_toFile(f, sk); fclose(f);
        LweSample *c = new_gate_bootstrapping_ciphertext_array(3, gb); int bits[3] = {1, 0, 1};
        f = fopen(cf.c_str(), "wb"); for (int i = 0; i < 3; i++) { bootsSymEncrypt(c + i, bits[i], sk); export_gate_bootstrapping_ciphertext_toFile(f, c + i, gb); } fclose(f);
        _exit(0);
    }
    int st = 0; waitpid(pid, &st, 0);
    if (!WIFEXITED(st) || WEXITSTATUS(st)) { fprintf(stderr, "client child failed\n"); return 2; }
    const std::string g_start = gen_state();
    VH_OP("server:import");
    FILE *f = fopen(kf.c_str(), "rb"); TFheGateBootstrappingCloudKeySet *ck = new_tfheGateBootstrappingCloudKeySet_fromFile(f); fclose(f);
    const TFheGateBootstrappingParameterSet *gb = ck->params;
    LweSample *in = new_gate_bootstrapping_ciphertext_array(3, gb), *r = new_gate_bootstrapping_ciphertext_array(G_COUNT, gb);
    f = fopen(cf.c_str(), "rb"); for (int i = 0; i < 3; i++) import_gate_bootstrapping_ciphertext_fromFile(f, in + i, gb); fclose(f);
    std::string cfg = std::string(flavor_name()) + "/" + backend_name() + (lambda ? "/default" + std::to_string(lambda <= 80 ? 80 : 128) : "/small") + "/server-role";
    std::string before = gen_state();
    for (int q = 0; q < G_COUNT; q++) {
        int g = (first + q) % G_COUNT;
        VH_OP("server:boots%s:%s", GATES[g].name, q == 0 ? "first evaluation of the process" : "later");
        gate_eval(g, r + g, in, in + 1, in + 2, 1, ck);
        std::string after = gen_state(); out.evaluations++;
        if (after != before) { out.viol(std::string("untouched:generator-advanced:boots") + GATES[g].name, J().s("config", cfg).s("gate", GATES[g].name).s("history", q == 0 ? "first evaluation in a process that never seeded, generated or encrypted" : "server role").b("generator_was_still_in_its_start_state", before == g_start)); before = after; }
    }
    { TorusPolynomial *a = new_TorusPolynomial(1024), *rr = new_TorusPolynomial(1024); IntPolynomial *ip = new_IntPolynomial(1024); for (int j = 0; j < 1024; j++) { ip->coefs[j] = j % 3 - 1; a->coefsT[j] = j * 7919; }
      torusPolynomialMultFFT(rr, ip, a); out.evaluations++; if (gen_state() != before) out.viol("untouched:generator-advanced:torusPolynomialMultFFT", J().s("config", cfg).s("history", "server role"));
      delete_IntPolynomial(ip); delete_TorusPolynomial(rr); delete_TorusPolynomial(a); }
    // only now the secret key: the results are right
    f = fopen(sf.c_str(), "rb"); TFheGateBootstrappingSecretKeySet *sk = new_tfheGateBootstrappingSecretKeySet_fromFile(f); fclose(f);
    for (int g = 0; g < G_COUNT; g++) { out.evaluations++; if (bootsSymDecrypt(r + g, sk) != gate_truth(g, 1, 0, 1)) out.viol(std::string("untouched:server-role-wrong-output:boots") + GATES[g].name, J().s("config", cfg)); }
    out.cell(cfg + ":first=" + GATES[first % G_COUNT].name); out.sample(J().s("mode", "server").s("config", cfg).s("first_entry_point", GATES[first % G_COUNT].name).b("generator_unchanged_from_process_start", gen_state() == g_start));
    delete_gate_bootstrapping_secret_keyset(sk); delete_gate_bootstrapping_ciphertext_array(G_COUNT, r); delete_gate_bootstrapping_ciphertext_array(3, in); delete_gate_bootstrapping_cloud_keyset(ck);
    unlink(kf.c_str()); unlink(sf.c_str()); unlink(cf.c_str()); rmdir(dir);
    out.finish();
    return 0;
}

int main(int argc, char **argv) {
    Args args(argc, argv);
    out.open(args.s("out", "-"));
    install_crash_handler();
    if (args.s("mode", "") == "server") return server_role(args);
    uint64_t seed = args.i("seed", 1);
    int lambda = args.i("lambda", 0);
    if (args.i("prelude", 0)) { rng.reseed(seed * 4241 + 3); seed_library(seed * 4243 + 5); history_other_parameter_set(rng); }
    rng.reseed(seed * 1000003ull + lambda);
    seed_library(seed * 19 + lambda);
    World w; TFheGateBootstrappingParameterSet *dp = nullptr; PSet *ps = nullptr;
    if (lambda) { dp = default_params(lambda); w.gb = dp; }
    else { ps = new PSet(args.i("n", 12), 1024, args.i("k", 1), args.i("l", 3), args.i("Bgbit", 7), 4, 3, ldexp(1., -20), ldexp(1., -30)); w.gb = ps->gb; }
    VH_OP("keygen");
    w.sk = new_random_gate_bootstrapping_secret_keyset(w.gb); w.ck = &w.sk->cloud;
    w.n = w.gb->in_out_params->n; w.N = 1024; w.k = w.gb->tgsw_params->tlwe_params->k; w.l = w.gb->tgsw_params->l; w.t = w.gb->ks_t; w.base = 1 << w.gb->ks_basebit; w.kpl = (w.k + 1) * w.l;
    { char b[96]; snprintf(b, sizeof b, "%s/%s/%s", flavor_name(), backend_name(), lambda ? (lambda <= 80 ? "default80" : "default128") : (ps->name().c_str())); w.cfg = b; }
    gates(w, args.i("reps", 3), lambda == 0);
    lowlevel(w, args.i("lreps", 3));
    fresh_thread_evaluations(w, args.i("treps", 11));
    out.sample(J().s("config", w.cfg).i("gate_reps", args.i("reps", 3)).s("snapshots", "input ciphertexts (bytes), test polynomial, exponent vector, KS rows (both copies), BK rows, BK FFT image, parameter structs, generator state text"));
    delete_gate_bootstrapping_secret_keyset(w.sk); if (ps) delete ps; if (dp) delete_gate_bootstrapping_parameters(dp);
    out.finish();
    return 0;
}
