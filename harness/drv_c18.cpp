// C18: truncated or mistyped serialized input is never accepted silently.
// Every case runs one import in a forked child; the child's termination status is the observation.
//   violation  <=>  the import returns normally with a clean stream (or, for FILE*, returns at all) although no complete valid
//                   encoding of the requested type is at the front of the input (re-export of the returned object is not the
//                   consumed front of the input), or the child dies from a wild access (SIGSEGV/SIGBUS outside page 0), or
//                   a sanitizer reports an out-of-bounds access while rejecting.
#include "iokinds.hpp"
#include <sys/wait.h>
#include <streambuf>
VH_MAIN_GLOBALS
using namespace vh;

static Rng rng;
static int g_pipe_w = -1;
static std::string g_child_err;

static void child_sig(int sig, siginfo_t *si, void *) {
    char b[64]; int n = snprintf(b, sizeof b, "S %d %lu\n", sig, (unsigned long) si->si_addr);  // snprintf: not formally async-safe, fine in a dying single-threaded child
    ssize_t r = write(g_pipe_w, b, n); (void) r;
    _exit(100);
}

struct Outcome { std::string kind; int sig = 0; unsigned long addr = 0; bool returned = false, null_obj = false, stream_good = true, reexport_ok = false, reexport_crashed = false; long consumed = -1; int exit_code = 0; bool timeout = false, threw = false; };

// records the offsets of 4-byte writes (type tags) while exporting
struct RecBuf : std::streambuf {
    std::string data; std::vector<size_t> four_byte_writes;
    std::streamsize xsputn(const char *s, std::streamsize n) override { if (n == 4) four_byte_writes.push_back(data.size()); data.append(s, n); return n; }
    int overflow(int c) override { if (c != EOF) data.push_back((char) c); return c; }
};

static Outcome run_case(const Kind &B, const Holder &like, const std::string &input, int tr) {
    Outcome o;
    int pfd[2]; if (pipe(pfd)) { perror("pipe"); exit(2); }
    fflush(out.f);
    pid_t pid = fork();
    if (pid == 0) {
        close(pfd[0]); g_pipe_w = pfd[1];
        struct sigaction sa; memset(&sa, 0, sizeof sa); sa.sa_sigaction = child_sig; sa.sa_flags = SA_SIGINFO | SA_NODEFER;
        static char alt[1 << 15]; stack_t ss; ss.ss_sp = alt; ss.ss_size = sizeof alt; ss.ss_flags = 0; sigaltstack(&ss, nullptr); sa.sa_flags |= SA_ONSTACK;
        int sigs[] = {SIGSEGV, SIGBUS, SIGABRT, SIGFPE, SIGILL, SIGALRM}; for (int s: sigs) sigaction(s, &sa, nullptr);
        // transports 4 and 5: the application ignores (FILE transport) or blocks (stream transport) SIGABRT; "terminates the
        // process" must not depend on the application's signal state
        if (tr == 4) { signal(SIGABRT, SIG_IGN); tr = T_FILE; }
        else if (tr == 5) { signal(SIGABRT, SIG_DFL); sigset_t m; sigemptyset(&m); sigaddset(&m, SIGABRT); sigprocmask(SIG_BLOCK, &m, nullptr); tr = T_STREAM; }
        // the child's stderr (library messages, and the reports of gcc's libubsan, which ignores log_path) goes to a file next to
        // the event log whose name the runner's sanitizer-log parser picks up
        int dn = g_child_err.empty() ? open("/dev/null", O_WRONLY) : open(g_child_err.c_str(), O_WRONLY | O_CREAT | O_APPEND, 0600); if (dn < 0) dn = open("/dev/null", O_WRONLY); dup2(dn, 2);
        alarm(30);
        HP im; bool good = true; long pos = -1;
        std::istringstream is(input, std::ios::binary); FILE *f = nullptr;
        if (tr == T_STREAM) { im = B.imp_s(is, like); good = (bool) is; is.clear(); pos = (long) is.tellg(); }
        else if (tr >= 2) {     // the caller's stream reports errors by exception (mask failbit|badbit, or all three bits)
            is.exceptions(tr == 2 ? (std::ios::failbit | std::ios::badbit) : (std::ios::failbit | std::ios::badbit | std::ios::eofbit));
            try { im = B.imp_s(is, like); good = !is.fail() && !is.bad(); }
            catch (const std::ios_base::failure &) { ssize_t rr = write(g_pipe_w, "T\n", 2); (void) rr; _exit(0); }
            is.exceptions(std::ios::goodbit); is.clear(); pos = (long) is.tellg();
        }
        else { f = fmemopen(input.empty() ? (void *) "" : (void *) input.data(), input.size() ? input.size() : 1, "rb"); if (input.empty()) { fseek(f, 0, SEEK_END); }
               im = B.imp_f(f, like); pos = ftell(f); }
        char b[96]; int n = snprintf(b, sizeof b, "R %d %d %ld\n", im->obj ? 1 : 0, good ? 1 : 0, pos);
        ssize_t r = write(g_pipe_w, b, n); (void) r;
        if (im->obj) {
            std::string R = to_stream_bytes([&](std::ostream &os) { B.exp_s(os, *im); });
            bool ok = (R.size() <= input.size() && input.compare(0, R.size(), R) == 0) || (R.size() == input.size() + 1 && R.compare(0, input.size(), input) == 0 && R.back() == '\n');
            n = snprintf(b, sizeof b, "X %d %zu\n", ok ? 1 : 0, R.size());
            r = write(g_pipe_w, b, n); (void) r;
        }
        _exit(0);
    }
    close(pfd[1]);
    std::string got; char buf[512]; ssize_t r;
    while ((r = read(pfd[0], buf, sizeof buf)) > 0) got.append(buf, r);
    close(pfd[0]);
    int st = 0; waitpid(pid, &st, 0);
    std::stringstream ss(got); std::string ln; bool have_x = false;
    while (std::getline(ss, ln)) {
        if (ln[0] == 'S') { sscanf(ln.c_str(), "S %d %lu", &o.sig, &o.addr); }
        else if (ln[0] == 'T') { o.threw = true; }
        else if (ln[0] == 'R') { int a, b2; long c; sscanf(ln.c_str(), "R %d %d %ld", &a, &b2, &c); o.returned = true; o.null_obj = !a; o.stream_good = b2; o.consumed = c; }
        else if (ln[0] == 'X') { int a; size_t sz; sscanf(ln.c_str(), "X %d %zu", &a, &sz); o.reexport_ok = a; have_x = true; }
    }
    if (WIFSIGNALED(st) && !o.sig) o.sig = WTERMSIG(st);
    if (WIFEXITED(st)) o.exit_code = WEXITSTATUS(st);
    if (o.sig == SIGALRM) o.timeout = true;
    if (o.returned && !o.null_obj && !have_x) o.reexport_crashed = true;
    return o;
}

static std::map<std::string, uint64_t> tally;

// classify; returns violation key or ""
static std::string classify(const Outcome &o, int tr, std::string &cls) {
    if (o.timeout) { cls = "hang"; return "import:hang"; }
    if (o.threw) { cls = "threw-ios_base::failure-to-the-caller"; return ""; }      // not a normal return: the caller is told
    if (o.exit_code == 97 || o.exit_code == 96) { cls = "sanitizer-report"; return "import:sanitizer-stopped-the-import"; /* the report itself is routed from the logs by the runner */ }
    if (o.sig && !o.returned) {
        if (o.sig == SIGSEGV || o.sig == SIGBUS) { if (o.addr < 4096) { cls = "terminated:null-deref"; return ""; } cls = "wild-access"; return "import:wild-access"; }
        cls = "terminated:sig" + std::to_string(o.sig); return "";
    }
    if (o.returned) {
        bool clean = (tr == T_FILE || tr == 4) ? true : o.stream_good;
        if (!clean) { cls = "returned:stream-failed"; return ""; }
        if (o.null_obj) { cls = "returned:null-object-clean-stream"; return "import:returned-null-with-clean-stream"; }
        if (o.reexport_crashed || (o.sig && o.returned)) { cls = "accepted:object-unusable"; return "import:accepted-partial-object"; }
        if (o.reexport_ok) { cls = "accepted:complete-valid-encoding-at-front"; return ""; }
        cls = "accepted:silently"; return "import:accepted-silently";
    }
    cls = "exit:" + std::to_string(o.exit_code); return "import:unexpected-exit";
}

static void record(const std::string &mode, const Kind &A, const Kind &B, int tr, const Outcome &o, const J &ctx) {
    std::string cls; std::string key = classify(o, tr, cls);
    out.evaluations++;
    tally[mode + "|" + B.name + "|" + (tr == 1 ? "file" : tr == 0 ? "stream" : tr == 4 ? "file-SIGABRT-ignored" : tr == 5 ? "stream-SIGABRT-blocked" : "stream-with-exception-mask") + "|" + cls]++;
    if (!key.empty()) {
        J d = ctx; d.s("mode", mode).s("exported_as", A.name).s("imported_as", B.name).s("transport", tr == 1 ? "FILE" : tr == 0 ? "stream" : tr == 2 ? "stream, exceptions(failbit|badbit)" : tr == 3 ? "stream, exceptions(failbit|badbit|eofbit)" : tr == 4 ? "FILE, SIGABRT ignored by the application" : "stream, SIGABRT blocked by the application").s("outcome", cls).i("signal", o.sig).u("fault_addr", o.addr).i("consumed", o.consumed);
        out.viol(key + ":" + mode + ":" + B.name, d);
    }
}

static std::string export_with_tags(const Kind &k, const Holder &h, std::vector<size_t> &tags) {
    RecBuf rb; std::ostream os(&rb); k.exp_s(os, h);
    static const int32_t known[] = {42, 84, 83, 168, 167, 43, 85, 169, 200, 201};
    for (size_t off: rb.four_byte_writes) { int32_t v; memcpy(&v, rb.data.data() + off, 4); for (int32_t t: known) if (v == t) { tags.push_back(off); break; } }
    return rb.data;
}

int main(int argc, char **argv) {
    Args args(argc, argv);
    out.open(args.s("out", "-"));
    install_crash_handler();
    uint64_t seed = args.i("seed", 1);
    std::string mode = args.s("mode", "prefix");
    { std::string op = args.s("out", "-"); if (op.size() > 6 && op.substr(op.size() - 6) == ".jsonl") g_child_err = op.substr(0, op.size() - 6) + ".san.child"; }
    int shard = args.i("shard", 0), nshards = args.i("nshards", 1);
    int max_offsets = args.i("max_offsets", 0);   // 0 = every offset (exhaustive)
    std::string only = args.s("kind", "");
    int size_class = args.i("size", 0);   // 0 = tiny objects; 3 = large arrays (single reads of 16 KB and more) for the kinds that have them
    rng.reseed(seed * 1000003ull + 17);
    seed_library(seed);
    IoGen g(rng);
    std::vector<Kind> K = io_kinds();
    // one tiny object per kind (identical in every shard: same PRNG stream)
    std::vector<HP> objs; std::vector<std::string> bytes; std::vector<std::vector<size_t>> tags(K.size());
    for (size_t i = 0; i < K.size(); i++) { objs.push_back(K[i].make(g, size_class)); bytes.push_back(export_with_tags(K[i], *objs[i], tags[i])); }
    uint64_t caseno = 0;
    auto mine = [&]() { return (int) (caseno++ % nshards) == shard; };
    if (mode == "prefix") {
        for (size_t i = 0; i < K.size(); i++) {
            if (!only.empty() && K[i].name != only) continue;
            const std::string &full = bytes[i]; size_t len = full.size();
            std::vector<size_t> offs;
            if (!max_offsets || len <= (size_t) max_offsets) for (size_t L = 0; L < len; L++) offs.push_back(L);
            else {   // section boundaries +-16, tags, and a uniform sample
                std::set<size_t> s; for (size_t L = 0; L < 64 && L < len; L++) s.insert(L);
                for (size_t L = len > 64 ? len - 64 : 0; L < len; L++) s.insert(L);
                for (size_t t: tags[i]) for (int d = -16; d <= 16; d++) if ((long) t + d >= 0 && t + d < len) s.insert(t + d);
                size_t p = 0; while ((p = full.find("-----", p)) != std::string::npos) { for (int d = -8; d <= 40; d++) if ((long) p + d >= 0 && p + d < len) s.insert(p + d); p += 5; if (p > 4096) break; }
                for (size_t L = len > 70000 ? len - 70000 : 0; L < len; L += 97) s.insert(L);   // inside the last large array
                while (s.size() < (size_t) max_offsets) s.insert(rng.below(len));
                offs.assign(s.begin(), s.end());
            }
            for (size_t L: offs) for (int tr = 0; tr < 6; tr++) {
                if (tr >= 4 && L % 5 != (size_t) (tr - 4)) continue;      // signal-state variants: a fifth of the offsets each
                if (!mine()) continue;
                VH_OP("prefix:%s:%zu", K[i].name.c_str(), L);
                Outcome o = run_case(K[i], *objs[i], full.substr(0, L), tr);
                record("prefix", K[i], K[i], tr, o, J().u("prefix_length", L).u("full_length", len));
            }
            char cell[96]; snprintf(cell, sizeof cell, "prefix:%s:%s:%zu-bytes", K[i].name.c_str(), offs.size() == len ? "every-offset" : "sampled-offsets", len); out.cell(cell, offs.size());
        }
        // the full export itself must be accepted (sanity of the oracle: "accepted:complete")
        for (size_t i = 0; i < K.size(); i++) for (int tr = 0; tr < 2; tr++) {
            if (!only.empty() && K[i].name != only) continue;
            if (!mine()) continue;
            Outcome o = run_case(K[i], *objs[i], bytes[i], tr); std::string cls; classify(o, tr, cls);
            out.evaluations++;
            if (cls != "accepted:complete-valid-encoding-at-front") out.viol("import:complete-export-not-accepted:" + K[i].name, J().s("outcome", cls).i("transport", tr).i("signal", o.sig));
        }
    } else if (mode == "substitute") {
        for (size_t a = 0; a < K.size(); a++) for (size_t b = 0; b < K.size(); b++) {
            if (a == b) continue;
            for (int tr = 0; tr < 2; tr++) {
                if (!mine()) continue;
                VH_OP("substitute:%s->%s", K[a].name.c_str(), K[b].name.c_str());
                Outcome o = run_case(K[b], *objs[b], bytes[a], tr);
                record("substitute", K[a], K[b], tr, o, J());
                char cell[128]; snprintf(cell, sizeof cell, "substitute:%s->%s", K[a].name.c_str(), K[b].name.c_str()); out.cell(cell);
            }
        }
        // inputs that are not exports of anything: empty lines, over-long lines, line-buffer boundaries, NUL bytes, binary
        // noise with many empty lines, None contains a title line.
        std::vector<std::pair<std::string, std::string>> hostile;
        hostile.push_back({"single-newline", "\n"}); hostile.push_back({"newlines", "\n\n\n\n"}); hostile.push_back({"cr-newline", "\r\n\r\n"}); hostile.push_back({"lone-cr", "\r"});
        hostile.push_back({"nul-bytes", std::string(16, '\0')}); hostile.push_back({"nul-then-newline", std::string("\0\n\0\n", 4)});
        for (int len: {1, 255, 256, 1023, 1024, 4095, 4096, 8191, 8192, 8193, 20000}) { hostile.push_back({"line-of-" + std::to_string(len) + "-no-newline", std::string(len, 'A')}); hostile.push_back({"line-of-" + std::to_string(len), std::string(len, 'A') + "\n"}); }
        { std::string nz(65536, 0); Rng r2(seed + 99); for (auto &ch: nz) { uint32_t v = r2.below(8); ch = v < 3 ? '\n' : v == 3 ? '\r' : (char) r2.below(256); } hostile.push_back({"binary-noise-with-empty-lines", nz}); }
        for (size_t b = 0; b < K.size(); b++) {
            std::vector<std::pair<std::string, std::string>> hs = hostile;
            // a complete, well-formed text section of a kind the library does not know, followed by a valid export of the requested
            // type: the first title line does not match, whatever follows it
            for (const char *title: {"CERTIFICATE", "LWE PARAMS", "lweparams", "TFHE KEY V2", "X"}) {
                std::string sec = std::string("-----BEGIN ") + title + "-----\nn: 3\nalpha_min: 0.1\nMIIBIjANBgkqhkiG9w0BAQEFAAOCAQ8A\n-----END " + title + "-----\n";
                hs.push_back({std::string("foreign-section(") + title + ")-then-valid-export", sec + bytes[b]});
            }
            // (a valid export behind blank lines is not used: the stream transport skips leading white space and then reads a
            // complete, correct object, which the property does not forbid)
            for (auto &h: hs) for (int tr = 0; tr < 2; tr++) {
                if (!mine()) continue;
                VH_OP("hostile:%s->%s", h.first.c_str(), K[b].name.c_str());
                Outcome o = run_case(K[b], *objs[b], h.second, tr);
                record("hostile", K[b], K[b], tr, o, J().s("input", h.first).u("bytes", h.second.size()));
            }
            char cell[128]; snprintf(cell, sizeof cell, "hostile-text:%s:%zu-inputs", K[b].name.c_str(), hs.size()); out.cell(cell);
        }
    } else if (mode == "corrupt") {
        for (size_t i = 0; i < K.size(); i++) {
            if (!only.empty() && K[i].name != only) continue;
            const std::string &full = bytes[i];
            // (a) every single-byte corruption of every type tag
            if (!args.i("titles_only", 0)) for (size_t t: tags[i]) for (int byte = 0; byte < 4; byte++) for (int v = 0; v < 256; v++) {
                if ((unsigned char) full[t + byte] == v) continue;
                if (!mine()) continue;
                std::string in = full; in[t + byte] = (char) v;
                for (int tr = 0; tr < 2; tr++) { Outcome o = run_case(K[i], *objs[i], in, tr); record("corrupt-tag", K[i], K[i], tr, o, J().u("tag_offset", t).i("byte", byte).i("value", v)); }
            }
            // (b) title lines
            size_t p = 0; int ntitles = 0;
            while ((p = full.find("-----", p)) != std::string::npos) {
                if (p != 0 && full[p - 1] != '\n') { p += 5; continue; }
                size_t e = full.find('\n', p); if (e == std::string::npos || e - p > 64) { p += 5; continue; }
                if (full.compare(p, 11, "-----BEGIN ") && full.compare(p, 9, "-----END ")) { p += 5; continue; }
                ntitles++;
                for (size_t c = p; c < e; c++) {
                    char orig = full[c]; char alts[5]; int na = 0;
                    if (orig == '-') alts[na++] = ' ';
                    if (isalpha((unsigned char) orig)) { alts[na++] = islower((unsigned char) orig) ? toupper(orig) : tolower(orig); alts[na++] = orig == 'Z' ? 'A' : orig + 1; }
                    if (orig == ' ') alts[na++] = '_';
                    alts[na++] = '\0'; alts[na++] = '\n';
                    for (int ai = 0; ai < na; ai++) {
                        if (!mine()) continue;
                        std::string in = full; in[c] = alts[ai];
                        for (int tr = 0; tr < 2; tr++) { Outcome o = run_case(K[i], *objs[i], in, tr); record("corrupt-title", K[i], K[i], tr, o, J().u("offset", c).i("replacement", (int) (unsigned char) alts[ai]).s("title_line", full.substr(p, e - p))); }
                    }
                }
                p = e;
            }
            char cell[96]; snprintf(cell, sizeof cell, "corrupt:%s:%zu-tags:%d-title-lines", K[i].name.c_str(), tags[i].size(), ntitles); out.cell(cell);
        }
    }
    {
        J t; for (auto &kv: tally) t.u(kv.first, kv.second);
        out.stat(J().s("kind", "outcomes").s("mode", mode).i("shard", shard).o("tally", t));
        std::string first = tally.empty() ? "" : tally.begin()->first;
        out.sample(J().s("mode", mode).i("shard", shard).s("example_outcome_class", first).u("count", tally.empty() ? 0 : tally.begin()->second));
    }
    out.finish();
    return 0;
}
