// C17: the exported cloud key contains only public evaluation material
#include "gates.hpp"
#include "iokinds.hpp"
#include <algorithm>
VH_MAIN_GLOBALS
using namespace vh;

static Rng rng;

static std::string ks_section(int n, int t, int bb) {
    // the integer-only LWEKSPARAMS section as the text writer prints it (properties in map order, "%10d")
    char b[256];
    snprintf(b, sizeof b, "-----BEGIN LWEKSPARAMS-----\nbasebit: %10d\nn: %10d\nt: %10d\n-----END LWEKSPARAMS-----\n", bb, n, t);
    return b;
}

static uint64_t windows_searched = 0;

// search every window of `win` consecutive key words that contains at least `min_ones` ones (or the whole key when shorter)
static void search_key(const std::string &hay, const int32_t *key, int len, int tag, const char *what, const std::string &cfg, int stride) {
    const int win = 64, min_ones = 8;
    auto probe = [&](const std::string &pat, int at, const char *enc) {
        windows_searched++;
        const void *hit = memmem(hay.data(), hay.size(), pat.data(), pat.size());
        if (hit) out.viol(std::string("cloud:secret-material-present:") + what, J().s("config", cfg).s("key", what).s("encoding", enc).i("key_word_offset", at)
                .u("found_at_byte", (const char *) hit - hay.data()).u("window_words", pat.size() / 4));
    };
    if (len < win) {
        if (len < 32) return;
        int ones = 0; for (int i = 0; i < len; i++) ones += key[i] != 0;
        if (ones < min_ones) return;
        probe(std::string((const char *) key, 4 * len), 0, "int32-array");
        std::string tagged((const char *) &tag, 4); tagged.append((const char *) key, 4 * len); probe(tagged, 0, "tag+int32-array");
        return;
    }
    for (int i = 0; i + win <= len; i += stride) {
        int ones = 0; for (int j = 0; j < win; j++) ones += key[i + j] != 0;
        if (ones < min_ones) continue;
        probe(std::string((const char *) (key + i), 4 * win), i, "int32-array");
    }
    // last window and the tagged head
    { int i = len - win; int ones = 0; for (int j = 0; j < win; j++) ones += key[i + j] != 0; if (ones >= min_ones) probe(std::string((const char *) (key + i), 4 * win), i, "int32-array"); }
    { std::string tagged((const char *) &tag, 4); tagged.append((const char *) key, 4 * (win - 1)); int ones = 0; for (int j = 0; j < win - 1; j++) ones += key[j] != 0; if (ones >= min_ones) probe(tagged, 0, "tag+int32-array"); }
    // bit-packed / byte-packed encodings are not used by the library; a byte-per-bit image is searched as a cheap extra
    { std::string bytes; for (int j = 0; j < (len < 256 ? len : 256); j++) bytes.push_back((char) key[j]); int ones = 0; for (char c: bytes) ones += c != 0; if (bytes.size() >= 64 && ones >= 16) probe(bytes, 0, "byte-per-bit(extra)"); }
}


// Support-pattern search: does the zero/non-zero pattern of a 64-word key window (>= 8 ones and >= 8 zeros) appear in the
// cloud bytes read as 32-bit words at any byte alignment, along any structural stride (consecutive words, one word per
// key-switching row / digit / key index, one word per ring polynomial / TLWE row / TGSW sample)? This catches key bits
// written one per row or scaled by a constant, which no consecutive-window search sees. Random ciphertext words are non-zero
// and the unused h=0 rows are all-zero, so a pattern with both zeros and ones cannot occur in public material by accident
// (chance 2^-64 per position).
static void support_search(const std::string &hay, const int32_t *key, int len, const char *what, const std::string &cfg, const std::vector<size_t> &strides) {
    const int win = 64;
    if (len < win) return;
    std::vector<std::string> pats; std::vector<int> pat_at;
    for (int start: {0, len / 2 - win / 2, len - win}) {
        if (start < 0) continue;
        int ones = 0; std::string p; for (int j = 0; j < win; j++) { p.push_back(key[start + j] ? 1 : 0); ones += key[start + j] != 0; }
        if (ones >= 8 && win - ones >= 8) { pats.push_back(p); pat_at.push_back(start); }
    }
    if (pats.empty()) return;
    for (int align = 0; align < 4; align++) {
        size_t nw = (hay.size() - align) / 4; if (nw < (size_t) win) continue;
        std::string nz(nw, 0);
        const char *b = hay.data() + align;
        for (size_t j = 0; j < nw; j++) { int32_t w; memcpy(&w, b + 4 * j, 4); nz[j] = w ? 1 : 0; }
        for (size_t d: strides) {
            if (d == 0 || d * (win - 1) >= nw) continue;
            for (size_t r = 0; r < d; r++) {
                size_t cnt = (nw - r + d - 1) / d; if (cnt < (size_t) win) break;
                std::string seq; 
                if (d == 1) seq = nz; else { seq.resize(cnt); for (size_t i = 0; i < cnt; i++) seq[i] = nz[r + i * d]; }
                for (size_t pi = 0; pi < pats.size(); pi++) {
                    windows_searched++;
                    const void *hit = memmem(seq.data(), seq.size(), pats[pi].data(), win);
                    if (hit) {
                        size_t idx = (const char *) hit - seq.data();
                        out.viol(std::string("cloud:secret-support-pattern-present:") + what, J().s("config", cfg).s("key", what).i("key_word_offset", pat_at[pi]).i("byte_alignment", align)
                                .u("stride_words", d).u("first_word_byte_offset", align + 4 * (r + idx * d)));
                        return;
                    }
                }
                if (d == 1) break;
            }
        }
    }
}

// origin 0: key set as generated. origin 1: the cloud key re-created (tfhe_createLweBootstrappingKey) from a secret key set that
// was exported and imported first - a client that stores only its secret key and regenerates the evaluation key on demand.
static int key_origin = 0;
static void check_keyset(const TFheGateBootstrappingParameterSet *gb, const std::string &cfg, int stride, bool eval, bool support = true) {
    VH_OP("keygen:%s", cfg.c_str());
    TFheGateBootstrappingSecretKeySet *sk = new_random_gate_bootstrapping_secret_keyset(gb);
    if (key_origin == 1) {
        VH_OP("regenerate-cloud-key-from-imported-secret-key:%s", cfg.c_str());
        std::string S0 = to_stream_bytes([&](std::ostream &o) { export_tfheGateBootstrappingSecretKeySet_toStream(o, sk); });
        delete_gate_bootstrapping_secret_keyset(sk);
        std::istringstream is(S0, std::ios::binary);
        TFheGateBootstrappingSecretKeySet *imp = new_tfheGateBootstrappingSecretKeySet_fromStream(is);
        LweBootstrappingKey *bk = new_LweBootstrappingKey(imp->params->ks_t, imp->params->ks_basebit, imp->params->in_out_params, imp->params->tgsw_params);
        tfhe_createLweBootstrappingKey(bk, imp->lwe_key, imp->tgsw_key);
        LweBootstrappingKeyFFT *bkf = new_LweBootstrappingKeyFFT(bk);
        sk = new TFheGateBootstrappingSecretKeySet(imp->params, bk, bkf, imp->lwe_key, imp->tgsw_key);
        // the imported shell's own evaluation key is released; the shell object itself is abandoned (its keys now belong to sk)
        delete_LweBootstrappingKeyFFT((LweBootstrappingKeyFFT *) imp->cloud.bkFFT); delete_LweBootstrappingKey((LweBootstrappingKey *) imp->cloud.bk);
        gb = sk->params;
        out.cell("origin:cloud-key-regenerated-from-imported-secret-key");
    }
    const int n = gb->in_out_params->n, N = gb->tgsw_params->tlwe_params->N, k = gb->tgsw_params->tlwe_params->k, l = gb->tgsw_params->l;
    const int t = gb->ks_t, bb = gb->ks_basebit, base = 1 << bb, kpl = (k + 1) * l;
    VH_OP("export:%s", cfg.c_str());
    std::string C = to_stream_bytes([&](std::ostream &o) { export_tfheGateBootstrappingCloudKeySet_toStream(o, &sk->cloud); });
    std::string Cf = to_file_bytes([&](FILE *f) { export_tfheGateBootstrappingCloudKeySet_toFile(f, &sk->cloud); });
    std::string S = to_stream_bytes([&](std::ostream &o) { export_tfheGateBootstrappingSecretKeySet_toStream(o, sk); });
    std::string P = to_stream_bytes([&](std::ostream &o) { export_tfheGateBootstrappingParameterSet_toStream(o, gb); });
    // export histories on the FILE transport: the usual order (secret key file first, then the cloud key file), and the
    // cloud key again after that; every cloud export must give the same bytes
    std::string Sf = to_file_bytes([&](FILE *f) { export_tfheGateBootstrappingSecretKeySet_toFile(f, sk); });
    std::string Cf2 = to_file_bytes([&](FILE *f) { export_tfheGateBootstrappingCloudKeySet_toFile(f, &sk->cloud); });
    std::string C2 = to_stream_bytes([&](std::ostream &o) { export_tfheGateBootstrappingCloudKeySet_toStream(o, &sk->cloud); });
    out.evaluations += 3;
    if (Sf != S) out.viol("cloud:transports-differ:secret-export", J().s("config", cfg).u("stream", S.size()).u("file", Sf.size()));
    if (Cf2 != C) out.viol("cloud:export-depends-on-history:FILE-after-secret-export", J().s("config", cfg).u("first_export", C.size()).u("after_secret_export", Cf2.size()));
    if (C2 != C) out.viol("cloud:export-depends-on-history:stream-after-secret-export", J().s("config", cfg).u("first_export", C.size()).u("after_secret_export", C2.size()));
    out.evaluations++;
    if (C != Cf) out.viol("cloud:transports-differ", J().s("config", cfg).u("stream", C.size()).u("file", Cf.size()));
    // exact layout and size
    std::string K = ks_section(k * N, t, bb);
    uint64_t ks_bytes = 4 + 8 + (uint64_t) k * N * t * base * (n + 1) * 4, bk_bytes = 4 + 8 + (uint64_t) n * kpl * (k + 1) * N * 4;
    uint64_t want = P.size() + K.size() + ks_bytes + bk_bytes;
    out.evaluations++;
    if (C.size() != want)
        out.viol("cloud:size", J().s("config", cfg).u("cloud_bytes", C.size()).u("expected", want).u("params_text", P.size()).u("ks_params_text", K.size()).u("ks_content", ks_bytes).u("bk_content", bk_bytes));
    out.evaluations++;
    if (C.compare(0, P.size(), P) != 0) out.viol("cloud:layout:parameter-prefix", J().s("config", cfg));
    else if (C.compare(P.size(), K.size(), K) != 0) out.viol("cloud:layout:ks-parameter-section", J().s("config", cfg).s("got", C.substr(P.size(), K.size())).s("want", K));
    else {
        int32_t tag1 = 0, tag2 = 0; size_t o1 = P.size() + K.size(), o2 = o1 + ks_bytes;
        if (o1 + 4 <= C.size()) memcpy(&tag1, C.data() + o1, 4);
        if (o2 + 4 <= C.size()) memcpy(&tag2, C.data() + o2, 4);
        if (tag1 != 200 || tag2 != 201) out.viol("cloud:layout:content-tags", J().s("config", cfg).i("ks_tag", tag1).i("bk_tag", tag2));
    }
    // the masks of the key material in the cloud bytes are pairwise different: two rows with one mask can be subtracted from
    // each other, which cancels the mask and leaves the difference of their messages, i.e. secret key coefficients, in the clear
    if (C.size() == want) {
        std::map<uint64_t, uint64_t> seen; uint64_t dup = 0, first_dup = 0, rowsn = 0;
        const char *ksb = C.data() + P.size() + K.size() + 12;
        for (uint64_t r = 0; r < (uint64_t) k * N * t * base; r++) {
            if (r % base == 0) continue;                                   // h = 0 rows are the (identical) unused zero samples
            uint64_t h = fnv1a(ksb + r * (n + 1) * 4, 4 * n); rowsn++;
            auto it = seen.find(h); if (it != seen.end()) { if (!dup) first_dup = r; dup++; } else seen[h] = r;
        }
        if (n < 2) dup = 0;                                                // a one-word mask can repeat by chance; not meaningful
        const char *bkb = ksb - 12 + ks_bytes + 12;
        std::map<uint64_t, uint64_t> seen2; uint64_t dup2 = 0;
        for (uint64_t r = 0; r < (uint64_t) n * kpl; r++) for (int q = 0; q < k; q++) {
            uint64_t h = fnv1a(bkb + (r * (k + 1) + q) * N * 4, 4 * N); rowsn++;
            if (seen2.count(h)) dup2++; else seen2[h] = r;
        }
        // a row must not be decodable without its mask: with the mask ignored (as if the secret key were zero) the body of a proper
        // encryption is uniform, so it agrees with the row's plaintext (key bit times the row's gadget value) only by chance
        {
            uint64_t ks_rows = 0, ks_hit = 0, bk_rows = 0, bk_hit = 0;
            for (int i = 0; i < k * N; i++) { int bit = sk->tgsw_key->tlwe_key.key[i / N].coefs[i % N];
                for (int j = 0; j < t; j++) for (int h = 1; h < base; h++) { uint64_t r = ((uint64_t) i * t + j) * base + h; int32_t b; memcpy(&b, ksb + r * (n + 1) * 4 + 4 * n, 4);
                    U msg = (U) bit * (U) h * ((U) 1 << (32 - (j + 1) * bb)); int32_t d = (int32_t) ((U) b - msg); ks_rows++; if (d > -(1 << 22) && d < (1 << 22)) ks_hit++; } }
            for (int i = 0; i < n; i++) { int bit = sk->lwe_key->key[i];
                for (int blk = 0; blk <= k; blk++) for (int j = 0; j < l; j++) { uint64_t r = (uint64_t) i * kpl + blk * l + j; int32_t b0; memcpy(&b0, bkb + (r * (k + 1) + blk) * N * 4, 4);
                    U msg = (U) bit * (U) gb->tgsw_params->h[j]; int32_t d = (int32_t) ((U) b0 - msg);
                    if (blk == k) { bk_rows++; if (d > -(1 << 22) && d < (1 << 22)) bk_hit++; } } }
            // and with the key the noise of the exported key-switching rows must be there: rows whose phase is exactly the plaintext
            // are noise-free LWE samples of the key (public combinations of them solve for it)
            { uint64_t exact = 0, rows2 = 0;
              for (int i = 0; i < k * N && rows2 < 4096; i++) { int bit = sk->tgsw_key->tlwe_key.key[i / N].coefs[i % N];
                  for (int j = 0; j < t; j++) for (int h = 1; h < base; h++) { uint64_t r = ((uint64_t) i * t + j) * base + h; const char *row = ksb + r * (n + 1) * 4;
                      U ph; memcpy(&ph, row + 4 * n, 4); for (int q = 0; q < n; q++) { int32_t a; memcpy(&a, row + 4 * q, 4); ph -= (U) a * (U) sk->lwe_key->key[q]; }
                      U msg = (U) bit * (U) h * ((U) 1 << (32 - (j + 1) * bb)); rows2++; if (ph == msg) exact++; } }
              // no two rows carry the same noise value more often than chance allows (two rows with one noise value differ by a
              // noiseless sample of the key): all non-zero-digit rows, exact noise with the secret key, equal pairs against the
              // collision rate of a discretised Gaussian of the configured width, n(n-1)/2 / (2 sigma sqrt(pi))
              { std::vector<int32_t> nz; nz.reserve((size_t) k * N * t * (base - 1));
                for (int i = 0; i < k * N; i++) { int bit = sk->tgsw_key->tlwe_key.key[i / N].coefs[i % N];
                    for (int j = 0; j < t; j++) for (int h = 1; h < base; h++) { uint64_t r = ((uint64_t) i * t + j) * base + h; const char *row = ksb + r * (n + 1) * 4;
                        U ph; memcpy(&ph, row + 4 * n, 4); for (int q = 0; q < n; q++) { int32_t a; memcpy(&a, row + 4 * q, 4); ph -= (U) a * (U) sk->lwe_key->key[q]; }
                        nz.push_back((int32_t) (ph - (U) bit * (U) h * ((U) 1 << (32 - (j + 1) * bb)))); } }
                std::sort(nz.begin(), nz.end()); double pairs = 0; for (size_t i = 0; i < nz.size();) { size_t j2 = i; while (j2 < nz.size() && nz[j2] == nz[i]) j2++; double c = (double) (j2 - i); pairs += c * (c - 1) / 2; i = j2; }
                double sigma = gb->in_out_params->alpha_min * 4294967296.0, m = (double) nz.size(), expected = sigma > 0 ? m * (m - 1) / 2 / (2 * sigma * sqrt(M_PI)) : 0;
                out.evaluations++;
                out.stat(J().s("kind", "noise-repeats").s("config", cfg).u("rows", nz.size()).d("equal_noise_pairs", pairs).d("expected_by_chance", expected));
                { double a1 = 0, a2 = 0; for (int32_t v: nz) { a1 += v; a2 += (double) v * v; } double mean = nz.empty() ? 0 : a1 / m, sd = nz.empty() ? 0 : sqrt(std::max(0.0, a2 / m - mean * mean));
                  out.evaluations++;
                  if (sigma >= 4 && nz.size() >= 1000 && sd < sigma / 2)
                      out.viol("cloud:key-switching-rows-carry-too-little-noise", J().s("config", cfg).u("rows", nz.size()).d("measured_stdev_units", sd).d("configured_stdev_units", sigma)); }
                if (sigma >= 64 && nz.size() >= 1000 && pairs > 3 * expected + 8 * sqrt(expected) + 20)
                    out.viol("cloud:key-switching-rows-share-noise-values", J().s("config", cfg).u("rows", nz.size()).d("equal_noise_pairs", pairs).d("expected_by_chance", expected)); }
              out.evaluations++;
              if (rows2 >= 64 && exact > rows2 / 2 && gb->in_out_params->alpha_min >= ldexp(1., -30))
                  out.viol("cloud:key-switching-rows-carry-no-noise", J().s("config", cfg).u("rows_examined", rows2).u("rows_with_exactly_zero_noise", exact).d("configured_stdev", gb->in_out_params->alpha_min)); }
            // the bootstrapping rows as well: with the ring key, the phase of row (i, blk, j) minus its plaintext (bit*h_j on
            // component blk) is the row's noise polynomial; rows without noise are exact linear equations in the ring key.
            // Up to 96 rows spread over the whole section, every coefficient; exact negacyclic arithmetic over the key's support
            { const double sigma_bk = gb->tgsw_params->tlwe_params->alpha_min * 4294967296.0;
              uint64_t total_rows = (uint64_t) n * kpl, step = total_rows > 96 ? total_rows / 96 : 1, rows3 = 0, zero_rows = 0, coefs3 = 0; double s1 = 0, s2 = 0;
              std::vector<std::vector<int>> supp(k); for (int q = 0; q < k; q++) for (int c = 0; c < N; c++) if (sk->tgsw_key->tlwe_key.key[q].coefs[c]) supp[q].push_back(c);
              std::vector<U> ph(N); std::vector<int32_t> a(N);
              for (uint64_t r = (uint64_t) (rng.below(step ? step : 1)); r < total_rows; r += step) {
                  int i = (int) (r / kpl), blk = (int) ((r % kpl) / l), j = (int) (r % l); U mu = (U) sk->lwe_key->key[i] * (U) gb->tgsw_params->h[j];
                  memcpy(ph.data(), bkb + (r * (k + 1) + k) * N * 4, 4 * N);
                  for (int q = 0; q < k; q++) { memcpy(a.data(), bkb + (r * (k + 1) + q) * N * 4, 4 * N);
                      for (int sc: supp[q]) { for (int c = 0; c + sc < N; c++) ph[c + sc] -= (U) a[c]; for (int c = N - sc; c < N; c++) ph[c + sc - N] += (U) a[c]; } }
                  bool all_zero = true;
                  for (int c = 0; c < N; c++) { U m = blk == k ? (c == 0 ? mu : 0) : (U) 0 - mu * (U) sk->tgsw_key->tlwe_key.key[blk].coefs[c];
                      double e = (double) (int32_t) (ph[c] - m); if (e != 0) all_zero = false; s1 += e; s2 += e * e; coefs3++; }
                  rows3++; if (all_zero) zero_rows++;
              }
              double mean = coefs3 ? s1 / coefs3 : 0, sd = coefs3 ? sqrt(std::max(0.0, s2 / coefs3 - mean * mean)) : 0;
              out.evaluations++;
              out.stat(J().s("kind", "bootstrapping-row-noise").s("config", cfg).u("rows_examined", rows3).u("coefficients", coefs3).u("rows_with_zero_noise_polynomial", zero_rows)
                           .d("measured_stdev_units", sd).d("configured_stdev_units", sigma_bk));
              if (rows3 >= 8 && coefs3 >= 512 && sigma_bk >= 4 && (sd < sigma_bk / 2 || zero_rows * 4 > rows3))
                  out.viol("cloud:bootstrapping-rows-carry-no-noise", J().s("config", cfg).u("rows_examined", rows3).u("rows_with_zero_noise_polynomial", zero_rows).d("measured_stdev_units", sd).d("configured_stdev_units", sigma_bk)); }
            // chance level 2^-9 per row; alarm when more than 2 % + 8 standard errors of the rows agree
            auto too_many = [](uint64_t hit, uint64_t rows) { double p = 1.0 / 512; return rows >= 64 && hit > 0.02 * rows + rows * p + 8 * sqrt(rows * p); };
            out.evaluations += 2;
            int lwe_weight = 0; for (int i = 0; i < n; i++) lwe_weight += sk->lwe_key->key[i] != 0;
            if (lwe_weight == 0) ks_hit = 0;      // an all-zero LWE key (possible for n = 1, 2) applies no mask by definition
            if (too_many(ks_hit, ks_rows)) out.viol("cloud:key-switching-rows-readable-without-the-mask", J().s("config", cfg).u("rows", ks_rows).u("rows_whose_body_alone_is_the_plaintext", ks_hit));
            if (too_many(bk_hit, bk_rows)) out.viol("cloud:bootstrapping-rows-readable-without-the-mask", J().s("config", cfg).u("rows", bk_rows).u("rows_whose_body_alone_is_the_plaintext", bk_hit));
            out.stat(J().s("kind", "mask-applied").s("config", cfg).u("ks_rows", ks_rows).u("ks_rows_readable_without_mask", ks_hit).u("bk_rows", bk_rows).u("bk_rows_readable_without_mask", bk_hit));
        }
        out.evaluations += rowsn;
        if (dup) out.viol("cloud:key-switching-rows-share-a-mask", J().s("config", cfg).u("rows_with_a_repeated_mask", dup).u("first_such_row", first_dup).u("rows", (uint64_t) k * N * t * (base - 1)));
        if (dup2) out.viol("cloud:bootstrapping-rows-share-a-mask", J().s("config", cfg).u("rows_with_a_repeated_mask", dup2));
    }
    // strict prefix of the secret export; the remainder is exactly the two key sections
    out.evaluations++;
    if (!(S.size() > C.size() && S.compare(0, C.size(), C) == 0)) out.viol("cloud:not-a-strict-prefix-of-secret-export", J().s("config", cfg).u("cloud", C.size()).u("secret", S.size()));
    else {
        std::string R = S.substr(C.size()), W;
        int32_t t43 = 43, t169 = 169;
        W.append((const char *) &t43, 4); W.append((const char *) sk->lwe_key->key, 4 * n);
        W.append((const char *) &t169, 4); for (int i = 0; i < k; i++) W.append((const char *) sk->tgsw_key->key[i].coefs, 4 * N);
        if (R != W) out.viol("cloud:secret-remainder-is-not-the-two-key-sections", J().s("config", cfg).u("remainder_bytes", R.size()).u("expected_bytes", W.size()));
    }
    // no secret key window anywhere in the cloud bytes
    VH_OP("search:%s", cfg.c_str());
    uint64_t before = windows_searched;
    if (Cf2 != C) search_key(Cf2, sk->lwe_key->key, n, 43, "lwe-key(in cloud file exported after the secret file)", cfg, stride * 4);
    search_key(C, sk->lwe_key->key, n, 43, "lwe-key", cfg, stride);
    for (int i = 0; i < k; i++) search_key(C, sk->tgsw_key->key[i].coefs, N, i == 0 ? 169 : 85, "ring-key", cfg, stride);
    { std::vector<int32_t> ext(k * N); for (int i = 0; i < k; i++) memcpy(&ext[i * N], sk->tgsw_key->key[i].coefs, 4 * N); search_key(C, ext.data(), k * N, 43, "extracted-key", cfg, stride * 2); }
    {
        std::vector<size_t> strides = {1, (size_t) n + 1, (size_t) base * (n + 1), (size_t) t * base * (n + 1), (size_t) N, (size_t) (k + 1) * N, (size_t) kpl * (k + 1) * N};
        if (support) {
            support_search(C, sk->lwe_key->key, n, "lwe-key", cfg, strides);
            for (int i = 0; i < k; i++) support_search(C, sk->tgsw_key->key[i].coefs, N, "ring-key", cfg, strides);
        }
    }
    out.evaluations += windows_searched - before;
    // sanity of the oracle itself: the same search finds the key in the *secret* export
    { std::string tail = S.substr(C.size() > 4096 ? C.size() - 4096 : 0); 
      const void *hit = n >= 64 ? memmem(tail.data(), tail.size(), (const char *) sk->lwe_key->key, 4 * 64) : (const void *) 1;
      if (!hit) out.viol("cloud:oracle-selfcheck-failed", J().s("config", cfg)); }
    // import needs no secret input and evaluates correctly
    if (eval) {
        VH_OP("import+evaluate:%s", cfg.c_str());
        std::istringstream is(C, std::ios::binary);
        TFheGateBootstrappingCloudKeySet *ck = new_tfheGateBootstrappingCloudKeySet_fromStream(is);
        out.evaluations++;
        if (!ck || !ck->bk || !ck->bkFFT || !ck->params) out.viol("cloud:import-failed", J().s("config", cfg));
        else {
            LweSample *in = new_gate_bootstrapping_ciphertext_array(3, gb), *r = new_gate_bootstrapping_ciphertext(ck->params);
            for (int v = 0; v < 8; v++) {
                for (int i = 0; i < 3; i++) bootsSymEncrypt(in + i, (v >> i) & 1, sk);
                for (int g = 0; g < G_COUNT; g++) {
                    gate_eval(g, r, in, in + 1, in + 2, v & 1, ck);
                    out.evaluations++;
                    if (bootsSymDecrypt(r, sk) != gate_truth(g, v & 1, (v >> 1) & 1, (v >> 2) & 1))
                        out.viol("cloud:imported-key-evaluates-wrongly", J().s("config", cfg).s("gate", GATES[g].name).i("inputs", v));
                }
            }
            delete_gate_bootstrapping_ciphertext(r); delete_gate_bootstrapping_ciphertext_array(3, in);
            delete_gate_bootstrapping_cloud_keyset(ck);
        }
    }
    out.cell(cfg);
    out.sample(J().s("config", cfg).u("cloud_bytes", C.size()).u("secret_bytes", S.size()).u("param_text_bytes", P.size()).u("key_windows_searched", windows_searched - before));
    delete_gate_bootstrapping_secret_keyset(sk);
}

int main(int argc, char **argv) {
    Args args(argc, argv);
    out.open(args.s("out", "-"));
    install_crash_handler();
    uint64_t seed = args.i("seed", 1);
    rng.reseed(seed * 1000003ull);
    seed_library(seed * 5 + 1);
    int lambda = args.i("lambda", 0);
    if (lambda) {
        TFheGateBootstrappingParameterSet *p = new_default_gate_bootstrapping_parameters(lambda);
        char cfg[64]; snprintf(cfg, sizeof cfg, "default%d:seed%llu", lambda <= 80 ? 80 : 128, (unsigned long long) seed);
        check_keyset(p, cfg, args.i("stride", 16), true);
        delete_gate_bootstrapping_parameters(p);
    } else {
        int count = args.i("count", 6);
        // decryptable small sets (evaluation under the imported key is checked) and structurally odd ones (layout only)
        struct C { int n, k, l, Bgbit, t, bb; bool eval; } cfgs[] = {
                {64, 1, 3, 7, 8, 2, true}, {100, 1, 2, 10, 8, 2, true}, {32, 2, 2, 8, 8, 2, true}, {40, 1, 4, 6, 5, 3, true},
                {33, 1, 1, 4, 1, 1, false}, {70, 2, 1, 16, 2, 1, false}, {1, 1, 2, 8, 3, 2, false}, {129, 1, 8, 4, 4, 4, false}};
        // key-switching tables far larger than the default one (24576 encrypted rows): 76800, 67584 and 71680 rows
        static const C large[] = {{12, 1, 2, 8, 5, 4, false}, {8, 2, 2, 8, 11, 2, false}, {10, 1, 2, 8, 10, 3, false}};
        const bool lg = args.i("large", 0);
        key_origin = args.i("origin", 0);
        for (int i = 0; i < count && i < (lg ? 3 : 8); i++) {
            const C &c = lg ? large[i] : cfgs[i];
            // noise levels: the usual order (key switch noisier than the ring), equal, and reversed
            const int nz = (i + (int) seed) % 3;
            PSet ps(c.n, 1024, c.k, c.l, c.Bgbit, c.t, c.bb, nz == 0 ? ldexp(1., -20) : nz == 1 ? ldexp(1., -28) : ldexp(1., -30), nz == 0 ? ldexp(1., -30) : nz == 1 ? ldexp(1., -28) : ldexp(1., -27));
            char cfg[96]; snprintf(cfg, sizeof cfg, "%s:seed%llu", ps.name().c_str(), (unsigned long long) seed);
            check_keyset(ps.gb, cfg, 8, c.eval);
        }
    }
    out.finish();
    return 0;
}
