// C20: cross-language object observation: the same objects dumped through the C99 view and the C++11 view of the headers
#include "vh.hpp"
VH_MAIN_GLOBALS
using namespace vh;
#define VIEW_NAME cppview_dump
#define VIEW_HASH cppview_hash
#define VIEW_LWEPARAMS cppview_lweparams
#define VIEW_TLWEPARAMS cppview_tlweparams
#define VIEW_TGSWPARAMS cppview_tgswparams
#define VIEW_LWESAMPLE cppview_lwesample
#define VIEW_TLWESAMPLE cppview_tlwesample
#include "../c20/c20_view.inc"
extern "C" void cview_dump(FILE *f, const TFheGateBootstrappingSecretKeySet *sk, const LweSample *ct);
extern "C" int cview_use_api(const TFheGateBootstrappingSecretKeySet *sk);

int main(int argc, char **argv) {
    Args args(argc, argv);
    out.open(args.s("out", "-"));
    install_crash_handler();
    uint64_t seed = args.i("seed", 1);
    seed_library(seed);
    for (int cfg = 0; cfg < 2; cfg++) {
        VH_OP("keygen:cfg=%d", cfg);
        TFheGateBootstrappingParameterSet *ps = cfg == 0 ? nullptr : new_default_gate_bootstrapping_parameters(128);
        PSet *small = cfg == 0 ? new PSet(12, 1024, 2, 2, 8, 3, 2, 1e-9, 1e-9) : nullptr;
        const TFheGateBootstrappingParameterSet *p = cfg == 0 ? small->gb : ps;
        TFheGateBootstrappingSecretKeySet *sk = new_random_gate_bootstrapping_secret_keyset(p);
        LweSample *ct = new_gate_bootstrapping_ciphertext(p);
        bootsSymEncrypt(ct, 1, sk);
        char *b1 = nullptr, *b2 = nullptr; size_t n1 = 0, n2 = 0;
        FILE *f1 = open_memstream(&b1, &n1); cview_dump(f1, sk, ct); fclose(f1);
        FILE *f2 = open_memstream(&b2, &n2); cppview_dump(f2, sk, ct); fclose(f2);
        out.evaluations++;
        size_t lines = 0; for (size_t i = 0; i < n2; i++) lines += b2[i] == '\n';
        if (n1 != n2 || memcmp(b1, b2, n1) != 0) {
            // first differing line
            size_t i = 0; while (i < n1 && i < n2 && b1[i] == b2[i]) i++;
            size_t s = i; while (s > 0 && b1[s - 1] != '\n') s--;
            std::string l1(b1 + s, strcspn(b1 + s, "\n")), l2(b2 + s, strcspn(b2 + s, "\n"));
            out.viol("cview:differs", J().i("cfg", cfg).s("c_view", l1).s("cpp_view", l2));
        }
        out.stat(J().s("kind", "view").i("cfg", cfg).u("fields_printed", lines).s("digest", std::to_string(fnv1a(b2, n2))));
        out.cell(cfg == 0 ? "view:small-k2" : "view:default128", lines);
        if (cfg == 1) {
            VH_OP("c-api-use");
            int r = cview_use_api(sk);
            out.evaluations++;
            if (r != 2) out.viol("cview:c-api-result", J().i("got", r).i("want", 2));
            out.cell("c-program:nand,and");
        }
        if (out.nsamples < 2) { std::string head(b2, n2 < 400 ? n2 : 400); out.sample(J().i("cfg", cfg).s("dump_head", head)); }
        free(b1); free(b2);
        delete_gate_bootstrapping_ciphertext(ct);
        delete_gate_bootstrapping_secret_keyset(sk);
        if (small) delete small;
        if (ps) delete_gate_bootstrapping_parameters(ps);
    }
    out.finish();
    return 0;
}
