// C05: export followed by import reproduces every object exactly, on both transports, alone or concatenated;
//      re-imported cloud keys evaluate to bit-identical ciphertexts, re-imported secret keys decrypt identically.
#include "gates.hpp"
#include "iokinds.hpp"
#include <thread>
#include <locale>
#include <cerrno>
#include <clocale>
VH_MAIN_GLOBALS
using namespace vh;

static Rng rng;

static std::string viol_key(const std::string &kind, const std::string &field) {
    if (field.rfind("real:", 0) == 0) return "io:real-parameter-not-preserved:" + field.substr(5);
    return "io:" + kind + ":" + field;
}

// the real-valued parameters of an object, for the witness of a "real:" mismatch
static void real_witness(J &d, const std::string &field, const Holder &a, const Holder &b, const Kind &k) {
    (void) field; (void) a; (void) b; (void) k;
}

static void roundtrip_one(const Kind &k, int sz, IoGen &g) {
    VH_OP("make:%s", k.name.c_str());
    HP o = k.make(g, sz);
    VH_OP("export:%s", k.name.c_str());
    std::string s1 = to_stream_bytes([&](std::ostream &os) { k.exp_s(os, *o); });
    std::string s2 = to_file_bytes([&](FILE *f) { k.exp_f(f, *o); });
    out.evaluations++;
    if (s1 != s2) out.viol("io:" + k.name + ":transports-differ", J().s("kind", k.name).u("stream_bytes", s1.size()).u("file_bytes", s2.size()));
    // other kinds of handles the API accepts: FILE* in append mode, FILE* on a pipe (not seekable), ofstream in append mode
    if (sz == 0 || rng.below(3) == 0) {
        std::string s3 = to_append_file_bytes([&](FILE *f) { k.exp_f(f, *o); });
        std::string s4 = to_pipe_bytes([&](FILE *f) { k.exp_f(f, *o); });
        std::string s5; { char path[] = "/tmp/vh-io-XXXXXX"; int fd = mkstemp(path); close(fd); { std::ofstream of(path, std::ios::binary | std::ios::app); k.exp_s(of, *o); }
            std::ifstream in(path, std::ios::binary); std::ostringstream ss; ss << in.rdbuf(); s5 = ss.str(); unlink(path); }
        out.evaluations += 3;
        if (s3 != s1) out.viol("io:" + k.name + ":transports-differ:FILE-append-mode", J().s("kind", k.name).u("stream_bytes", s1.size()).u("file_bytes", s3.size()));
        if (s4 != s1) out.viol("io:" + k.name + ":transports-differ:FILE-on-pipe", J().s("kind", k.name).u("stream_bytes", s1.size()).u("file_bytes", s4.size()));
        if (s5 != s1) out.viol("io:" + k.name + ":transports-differ:ofstream-append-mode", J().s("kind", k.name).u("stream_bytes", s1.size()).u("file_bytes", s5.size()));
        char cell2[96]; snprintf(cell2, sizeof cell2, "%s:handles:append,pipe,ofstream-app", k.name.c_str()); out.cell(cell2);
    }
    // exporting must not change the object: a second export gives the same bytes
    std::string s1b = to_stream_bytes([&](std::ostream &os) { k.exp_s(os, *o); });
    if (s1b != s1) out.viol("io:" + k.name + ":export-not-repeatable", J().s("kind", k.name));
    for (int tr = 0; tr < 2; tr++) {
        VH_OP("import:%s:%s", k.name.c_str(), tr ? "file" : "stream");
        HP im; long pos = -1; bool good = true;
        errno = rng.below(3) == 0 ? 0 : (rng.coin() ? ERANGE : EINVAL);     // whatever an earlier, unrelated call left behind
        if (tr == T_STREAM) { std::istringstream is(s1, std::ios::binary);
            // a third of the streams report errors by exception (the caller's choice): a valid import must not throw, and must
            // leave the mask as it found it
            bool exc = rng.below(3) == 0; if (exc) is.exceptions(std::ios::failbit | std::ios::badbit);
            try { im = k.imp_s(is, *o); } catch (const std::ios_base::failure &e) { out.viol("io:" + k.name + ":valid-import-threw", J().s("kind", k.name).s("what", e.what())); continue; }
            if (exc && is.exceptions() != (std::ios::failbit | std::ios::badbit)) out.viol("io:" + k.name + ":exception-mask-of-the-callers-stream-changed", J().s("kind", k.name).i("mask", (int) is.exceptions()));
            is.exceptions(std::ios::goodbit); good = (bool) is; is.clear(); pos = (long) is.tellg(); }
        else { FILE *f = fmemopen((void *) s1.data(), s1.size(), "rb"); im = k.imp_f(f, *o); pos = ftell(f); fclose(f); }
        out.evaluations++;
        if (!im->obj) { out.viol("io:" + k.name + ":import-returned-null", J().s("kind", k.name).i("transport", tr)); continue; }
        if (!good) out.viol("io:" + k.name + ":stream-failed-on-valid-input", J().s("kind", k.name));
        if (pos != (long) s1.size()) out.viol("io:" + k.name + ":consumed-bytes", J().s("kind", k.name).i("transport", tr).i("consumed", pos).u("exported", s1.size()));
        std::string e = k.cmp(*o, *im);
        if (!e.empty()) {
            J d; d.s("kind", k.name).s("field", e).i("transport", tr).i("size_class", sz);
            if (e.rfind("real:", 0) == 0) { // witness: the text of the export around the field
                std::string fld = e.substr(e.find('.') + 1); size_t p2 = fld.find('('); if (p2 != std::string::npos) fld = fld.substr(0, p2);
                size_t at = s1.find(fld + ": "); if (at != std::string::npos) d.s("exported_text", s1.substr(at, s1.find('\n', at) - at));
            }
            out.viol(viol_key(k.name, e), d);
        }
        // re-export of the imported object gives identical bytes
        std::string s3 = tr == T_STREAM ? to_stream_bytes([&](std::ostream &os) { k.exp_s(os, *im); }) : to_file_bytes([&](FILE *f) { k.exp_f(f, *im); });
        out.evaluations++;
        if (s3 != s1) {
            size_t i = 0; while (i < s3.size() && i < s1.size() && s3[i] == s1[i]) i++;
            bool in_text = s1.substr(0, i).rfind("-----END") == std::string::npos || s1.find("-----BEGIN", i) != std::string::npos;
            out.viol(std::string("io:") + (e.rfind("real:", 0) == 0 ? "real-parameter-not-preserved:reexport" : k.name + ":reexport-differs"),
                     J().s("kind", k.name).i("transport", tr).u("first_difference_at", i).u("bytes", s1.size()).b("in_text_section", in_text));
        }
    }
    char cell[96]; snprintf(cell, sizeof cell, "%s:single:size%d", k.name.c_str(), sz); out.cell(cell);
    if (out.nsamples < 10 && rng.below(8) == 0) out.sample(J().s("kind", k.name).i("size_class", sz).u("export_bytes", s1.size()).s("head", s1.substr(0, 60)));
}

// thread hand-off histories: an imported object belongs to the program, not to the thread that happened to import it.
// The import runs on a loader thread that has exited (and whose memory may have been recycled) before the object is compared,
// re-exported and released on the main thread; and the other way round, the export runs on a writer thread.
static void handoff(const Kind &k, int sz, IoGen &g) {
    VH_OP("handoff:make:%s", k.name.c_str());
    HP o = k.make(g, sz);
    std::string s1;
    { std::thread w([&] { VH_OP("handoff:export-on-writer-thread:%s", k.name.c_str()); s1 = to_stream_bytes([&](std::ostream &os) { k.exp_s(os, *o); }); }); w.join(); }
    std::string s0 = to_file_bytes([&](FILE *f) { k.exp_f(f, *o); });
    out.evaluations++;
    if (s0 != s1) out.viol("io:" + k.name + ":transports-differ:writer-thread", J().s("kind", k.name).u("stream_bytes_on_writer_thread", s1.size()).u("file_bytes_on_main", s0.size()));
    for (int tr = 0; tr < 2; tr++) {
        HP im; bool good = true;
        { std::thread ld([&] { VH_OP("handoff:import-on-loader-thread:%s:%s", k.name.c_str(), tr ? "file" : "stream");
              if (tr == T_STREAM) { std::istringstream is(s1, std::ios::binary); im = k.imp_s(is, *o); good = (bool) is; }
              else { FILE *f = fmemopen((void *) s1.data(), s1.size(), "rb"); im = k.imp_f(f, *o); fclose(f); } });
          ld.join(); }
        // other threads come and go, and allocate, before the object is used
        for (int i = 0; i < 3; i++) { std::thread t([&] { std::vector<TorusPolynomial *> v; for (int j = 0; j < 8; j++) v.push_back(new_TorusPolynomial(1024)); for (auto *q: v) delete_TorusPolynomial(q);
                                                          LweParams *lp = new_LweParams(7, 1e-3, 1e-2); delete_LweParams(lp); }); t.join(); }
        VH_OP("handoff:use-on-main:%s:%s", k.name.c_str(), tr ? "file" : "stream");
        out.evaluations++;
        if (!im || !im->obj) { out.viol("io:" + k.name + ":import-returned-null", J().s("kind", k.name).i("transport", tr).s("history", "loader thread")); continue; }
        if (!good) out.viol("io:" + k.name + ":stream-failed-on-valid-input", J().s("kind", k.name).s("history", "loader thread"));
        std::string e = k.cmp(*o, *im);
        if (!e.empty()) out.viol("io:" + k.name + ":object-imported-on-exited-thread-differs", J().s("kind", k.name).s("field", e).i("transport", tr).i("size_class", sz));
        std::string s3 = tr == T_STREAM ? to_stream_bytes([&](std::ostream &os) { k.exp_s(os, *im); }) : to_file_bytes([&](FILE *f) { k.exp_f(f, *im); });
        out.evaluations++;
        if (s3 != s1) out.viol("io:" + k.name + ":reexport-differs:object-imported-on-exited-thread", J().s("kind", k.name).i("transport", tr).u("bytes", s1.size()).u("reexported_bytes", s3.size()));
        // and released on yet another thread
        { std::thread rel([&] { VH_OP("handoff:release-on-third-thread:%s", k.name.c_str()); im.reset(); }); rel.join(); }
    }
    char cell[96]; snprintf(cell, sizeof cell, "%s:handoff(writer/loader/main/releaser threads):size%d", k.name.c_str(), sz); out.cell(cell);
}

// 2..8 objects of mixed kinds written back-to-back into one stream and read back in order
static void concatenated(const std::vector<Kind> &K, IoGen &g, int tr) {
    int cnt = 2 + rng.below(7);
    std::vector<HP> objs; std::vector<int> kinds; std::vector<size_t> ends;
    std::string all;
    for (int i = 0; i < cnt; i++) {
        int ki = rng.below(K.size() - 2);  // key sets are exercised in the single/functional tests (cost)
        if (rng.below(6) == 0) ki = (int) K.size() - 2 + rng.below(2);
        HP o = K[ki].make(g, ki >= (int) K.size() - 2 ? 0 : 1);
        std::string s = tr == T_STREAM ? to_stream_bytes([&](std::ostream &os) { K[ki].exp_s(os, *o); }) : to_file_bytes([&](FILE *f) { K[ki].exp_f(f, *o); });
        all += s; objs.push_back(o); kinds.push_back(ki); ends.push_back(all.size());
    }
    VH_OP("import:concatenated:%s", tr ? "file" : "stream");
    std::istringstream is(all, std::ios::binary); FILE *f = tr == T_FILE ? fmemopen((void *) all.data(), all.size(), "rb") : nullptr;
    std::string seq;
    for (int i = 0; i < cnt; i++) {
        const Kind &k = K[kinds[i]]; seq += (i ? "," : "") + k.name;
        HP im = tr == T_STREAM ? k.imp_s(is, *objs[i]) : k.imp_f(f, *objs[i]);
        long pos = tr == T_STREAM ? (long) is.tellg() : ftell(f);
        out.evaluations++;
        if (!im->obj) { out.viol("io:" + k.name + ":import-returned-null", J().s("sequence", seq).i("position", i)); break; }
        std::string e = k.cmp(*objs[i], *im);
        if (!e.empty()) out.viol(viol_key(k.name, e) + (e.rfind("real:", 0) == 0 ? "" : ":in-sequence"), J().s("kind", k.name).s("field", e).s("sequence", seq).i("position", i).i("transport", tr));
        if (pos != (long) ends[i]) { out.viol("io:" + k.name + ":consumed-bytes:in-sequence", J().s("sequence", seq).i("position", i).i("consumed_to", pos).u("expected", ends[i]).i("transport", tr)); break; }
        char cell[96]; snprintf(cell, sizeof cell, "%s:sequence:pos%d:%s", k.name.c_str(), i < 3 ? i : 3, tr ? "file" : "stream"); out.cell(cell);
    }
    if (f) fclose(f);
    if (out.nsamples < 12 && rng.below(4) == 0) out.sample(J().s("sequence", seq).i("transport", tr).u("total_bytes", all.size()));
}

// functional equivalence of re-imported key sets
static void functional(int lambda_or_0, int tr) {
    TFheGateBootstrappingParameterSet *dp = lambda_or_0 ? new_default_gate_bootstrapping_parameters(lambda_or_0) : nullptr;
    // small set with the default noise levels (the reals that matter) when no default set is requested
    PSet *ps = lambda_or_0 ? nullptr : new PSet(12, 1024, 1, 3, 7, 8, 2, ldexp(1., -15), ldexp(1., -25));
    const TFheGateBootstrappingParameterSet *gb = dp ? dp : ps->gb;
    VH_OP("keygen:functional");
    TFheGateBootstrappingSecretKeySet *sk = new_random_gate_bootstrapping_secret_keyset(gb);
    std::string cb = tr == T_STREAM ? to_stream_bytes([&](std::ostream &os) { export_tfheGateBootstrappingCloudKeySet_toStream(os, &sk->cloud); })
                                    : to_file_bytes([&](FILE *f) { export_tfheGateBootstrappingCloudKeySet_toFile(f, &sk->cloud); });
    std::string sb = tr == T_STREAM ? to_stream_bytes([&](std::ostream &os) { export_tfheGateBootstrappingSecretKeySet_toStream(os, sk); })
                                    : to_file_bytes([&](FILE *f) { export_tfheGateBootstrappingSecretKeySet_toFile(f, sk); });
    VH_OP("import:functional");
    TFheGateBootstrappingCloudKeySet *ck2; TFheGateBootstrappingSecretKeySet *sk2;
    if (tr == T_STREAM) { std::istringstream i1(cb, std::ios::binary), i2(sb, std::ios::binary); ck2 = new_tfheGateBootstrappingCloudKeySet_fromStream(i1); sk2 = new_tfheGateBootstrappingSecretKeySet_fromStream(i2); }
    else { FILE *f1 = fmemopen((void *) cb.data(), cb.size(), "rb"), *f2 = fmemopen((void *) sb.data(), sb.size(), "rb"); ck2 = new_tfheGateBootstrappingCloudKeySet_fromFile(f1); sk2 = new_tfheGateBootstrappingSecretKeySet_fromFile(f2); fclose(f1); fclose(f2); }
    const int n = gb->in_out_params->n;
    LweSample *in = new_gate_bootstrapping_ciphertext_array(3, gb), *r1 = new_gate_bootstrapping_ciphertext(gb), *r2 = new_gate_bootstrapping_ciphertext(ck2->params);
    for (int v = 0; v < 8; v++) {
        for (int i = 0; i < 3; i++) bootsSymEncrypt(in + i, (v >> i) & 1, sk);
        for (int g = 0; g < G_COUNT; g++) {
            VH_OP("gate-under-imported-key:%s", GATES[g].name);
            gate_eval(g, r1, in, in + 1, in + 2, v & 1, &sk->cloud);
            gate_eval(g, r2, in, in + 1, in + 2, v & 1, ck2);
            out.evaluations++;
            if (memcmp(r1->a, r2->a, 4 * n) || r1->b != r2->b)
                out.viol(std::string("io:functional:gate-output-differs-under-imported-cloud-key"), J().s("gate", GATES[g].name).i("inputs", v).i("transport", tr).i("lambda", lambda_or_0));
            else if (r1->current_variance != r2->current_variance)      // the whole ciphertext object, annotation included (it is exported with the ciphertext)
                out.viol(std::string("io:functional:gate-output-differs-under-imported-cloud-key"), J().s("gate", GATES[g].name).i("inputs", v).i("transport", tr).i("lambda", lambda_or_0).s("field", "current_variance").d("original_key", r1->current_variance).d("imported_key", r2->current_variance));
            // the re-imported secret key decrypts identically (phase and bit)
            U p1 = ref_lwe_phase(r1, sk->lwe_key->key, n), p2 = ref_lwe_phase(r1, sk2->lwe_key->key, n);
            if (p1 != p2 || bootsSymDecrypt(r1, sk) != bootsSymDecrypt(r1, sk2))
                out.viol("io:functional:imported-secret-key-decrypts-differently", J().s("gate", GATES[g].name).i("transport", tr));
            if (bootsSymDecrypt(r2, sk2) != gate_truth(g, v & 1, (v >> 1) & 1, (v >> 2) & 1))
                out.viol("io:functional:wrong-result-under-imported-keys", J().s("gate", GATES[g].name).i("inputs", v).i("transport", tr).i("lambda", lambda_or_0));
        }
    }
    // encrypting with the imported secret key uses the imported noise level: must be the configured one (bit-exact parameter)
    out.evaluations++;
    if (!deq(sk2->params->in_out_params->alpha_min, gb->in_out_params->alpha_min))
        out.viol("io:real-parameter-not-preserved:functional.encryption-noise", J().d("original", gb->in_out_params->alpha_min).d("imported", sk2->params->in_out_params->alpha_min).i("lambda", lambda_or_0));
    char cell[96]; snprintf(cell, sizeof cell, "functional:%s:%s", lambda_or_0 ? (lambda_or_0 <= 80 ? "default80" : "default128") : "small-default-noise", tr ? "file" : "stream"); out.cell(cell, 8 * G_COUNT);
    delete_gate_bootstrapping_ciphertext(r2); delete_gate_bootstrapping_ciphertext(r1); delete_gate_bootstrapping_ciphertext_array(3, in);
    delete_gate_bootstrapping_secret_keyset(sk2); delete_gate_bootstrapping_cloud_keyset(ck2); delete_gate_bootstrapping_secret_keyset(sk);
    if (ps) delete ps; if (dp) delete_gate_bootstrapping_parameters(dp);
}

int main(int argc, char **argv) {
    Args args(argc, argv);
    out.open(args.s("out", "-"));
    install_crash_handler();
    uint64_t seed = args.i("seed", 1);
    rng.reseed(seed * 1000003ull + args.i("shard", 0) * 101);
    seed_library(seed + args.i("shard", 0));
    // environment: an application may have installed a global C++ locale whose numbers use a decimal comma and digit grouping;
    // the serialized format does not depend on it (only the C++ locale can be varied here: the image has no other C locales)
    if (args.i("locale", 0)) {
        struct Comma : std::numpunct<char> { char do_decimal_point() const override { return ','; } char do_thousands_sep() const override { return '.'; } std::string do_grouping() const override { return "\3"; } };
        std::locale::global(std::locale(std::locale(), new Comma));
        out.cell("environment:global-locale-with-decimal-comma-and-grouping");
    }
    // the C library's locale as well (built by the check with localedef, found through LOCPATH): decimal comma, digit grouping.
    // Whatever the text looks like under it, what is exported in this process must come back exactly in this process.
    if (args.has("clocale")) {
        const char *got = setlocale(LC_ALL, args.s("clocale", "").c_str());
        char probe[32]; snprintf(probe, sizeof probe, "%.1f", 1.5);
        out.stat(J().s("kind", "environment").s("requested_c_locale", args.s("clocale", "")).s("setlocale", got ? got : "(unavailable)").s("printf_of_1.5", probe));
        out.cell(got && probe[1] == ',' ? "environment:c-locale-with-decimal-comma" : "environment:c-locale-unavailable");
    }
    IoGen g(rng);
    std::vector<Kind> K = io_kinds();
    std::string mode = args.s("mode", "single");
    int reps = args.i("reps", 20);
    if (mode == "single") {
        for (auto &k: K) {
            bool heavy = k.name == "CloudKeySet" || k.name == "SecretKeySet";
            for (int r = 0; r < (heavy ? (reps + 4) / 5 : reps); r++) roundtrip_one(k, r % 4 == 0 ? 0 : 1, g);
            if (k.name == "GateBootstrappingParameterSet") for (int r = 0; r < 4; r++) roundtrip_one(k, 2, g);   // both default sets
        }
        // the same kinds in reverse order: a long export (secret key set) now precedes shorter ones on the same thread,
        // so state kept by an exporter between calls (staging buffers, cached sections) shows up as differing bytes
        for (auto it = K.rbegin(); it != K.rend(); ++it) roundtrip_one(*it, 0, g);
    } else if (mode == "longrun") {
        // call number K behaves like call number 1: tiny objects of every light kind exported and re-imported far more often than any
        // 8- or 16-bit counter or table in the I/O layer could count (the library keeps every imported parameter object alive)
        int count = args.i("count", 70000);
        std::vector<const Kind *> light; for (auto &k: K) if (k.name == "LweParams" || k.name == "LweSample" || k.name == "TLweParams" || k.name == "TGswParams" || k.name == "LweKey" || k.name == "GateBootstrappingParameterSet") light.push_back(&k);
        for (const Kind *k: light) {
            HP o = k->make(g, 0);
            std::string s1 = to_stream_bytes([&](std::ostream &os) { k->exp_s(os, *o); });
            uint64_t bad = 0; int first = -1;
            const bool fresh_reals = k->name == "LweParams" || k->name == "TLweParams";     // parameter objects are cheap: a new one, with new real-valued fields, every time
            for (int it = 0; it < count; it++) {
                VH_OP("longrun:%s:call=%d", k->name.c_str(), it);
                if (fresh_reals && it) { o = k->make(g, 0); s1 = to_stream_bytes([&](std::ostream &os) { k->exp_s(os, *o); }); }
                int tr = it & 1; HP im;
                if (tr == T_STREAM) { std::istringstream is(s1, std::ios::binary); im = k->imp_s(is, *o); }
                else { FILE *f = fmemopen((void *) s1.data(), s1.size(), "rb"); im = k->imp_f(f, *o); fclose(f); }
                bool ok = im->obj && k->cmp(*o, *im).empty();
                if (ok && ((it % 16) == 0 || fresh_reals)) { std::string s3 = tr ? to_file_bytes([&](FILE *f) { k->exp_f(f, *im); }) : to_stream_bytes([&](std::ostream &os) { k->exp_s(os, *im); }); ok = s3 == s1; }
                out.evaluations++;
                if (!ok) { bad++; if (first < 0) first = it; }
            }
            if (bad) out.viol(fresh_reals ? "io:real-parameter-not-preserved:" + k->name + "(many random values)" : "io:" + k->name + ":round-trip-fails-after-many-calls", J().s("kind", k->name).i("first_failing_call", first).u("failing_calls", bad).i("calls", count));
            char cell[96]; snprintf(cell, sizeof cell, "%s:longrun:%d-round-trips", k->name.c_str(), count); out.cell(cell, count);
        }
        out.sample(J().s("mode", "longrun").i("round_trips_per_kind", count));
    } else if (mode == "handoff") {
        for (auto &k: K) { bool heavy = k.name == "CloudKeySet" || k.name == "SecretKeySet"; for (int r = 0; r < (heavy ? (reps + 4) / 5 : reps); r++) handoff(k, r % 3 == 0 ? 0 : 1, g); }
        out.sample(J().s("mode", "handoff").s("history", "export on a writer thread, import on a loader thread that exits, compare/re-export on main, release on a third thread"));
    } else if (mode == "sequence") {
        for (int r = 0; r < reps; r++) concatenated(K, g, r & 1);
    } else if (mode == "functional") {
        int lam = args.i("lambda", 0);
        functional(lam, T_STREAM); functional(lam, T_FILE);
        out.sample(J().s("mode", "functional").i("lambda", lam).s("gates", "all 14 on all 8 input tuples, memcmp of outputs under original vs imported cloud key"));
    } else if (mode == "default-keyset") {
        // one full default-parameter key set through both transports
        int lam = args.i("lambda", 128);
        for (auto &k: K) if (k.name == "SecretKeySet" || k.name == "CloudKeySet") { rng.reseed(seed + lam); roundtrip_one(k, 2, g); }
    }
    if (out.nsamples == 0) out.sample(J().s("mode", mode).u("evaluations", out.evaluations));
    out.finish();
    return 0;
}
