// C09: external product multiplies messages (coefficient- and FFT-domain), blind rotation rotates by the secret exponent,
//      the FFT-domain key is a faithful image of the coefficient-domain key.
#include "vh.hpp"
VH_MAIN_GLOBALS
using namespace vh;

static Rng rng;
static const int N = 1024;

struct Ctx {
    int k, l, Bgbit; TLweParams *tl; TGswParams *tg; TGswKey *key; std::string cfg;
    double det_bound_units(double m_l1) const {   // deterministic bound for noiseless rows (DESIGN C09)
        double Bg = ldexp(1.0, Bgbit);
        return (1.0 + k * N) * (m_l1 * ldexp(1.0, 32 - l * Bgbit) + 2.0 * (k + 1) * l * ceil((Bg / 2) / 512.0)) + 2;
    }
    double noisy_sigma_units(double alpha) const { // per-coefficient std added by noisy rows
        double Bg = ldexp(1.0, Bgbit), a2 = pow(alpha * 4294967296.0, 2) + 1.5 * 1.5;
        return sqrt((double) (k + 1) * l * N * (Bg * Bg / 4.0) * a2);   // worst-case digits |d| <= Bg/2 (structured inputs)
    }
};

// noiseless TGSW encryption of m built by the harness through the public fields: rows are exact encryptions of 0
static void build_noiseless(const Ctx &c, TGswSample *out_s, const IntPolynomial *m) {
    std::vector<U> t;
    for (int p = 0; p < c.tg->kpl; p++) {
        TLweSample *row = &out_s->all_sample[p];
        for (int j = 0; j < N; j++) row->b->coefsT[j] = 0;
        for (int i = 0; i < c.k; i++) {
            for (int j = 0; j < N; j++) row->a[i].coefsT[j] = rng.i32();
            ref_negacyclic(t, c.key->key[i].coefs, row->a[i].coefsT, N);
            for (int j = 0; j < N; j++) row->b->coefsT[j] = (int32_t) ((U) row->b->coefsT[j] + t[j]);
        }
        row->current_variance = 0;
    }
    tGswAddMuH(out_s, m, c.tg);
}

static const char *mcls_name[] = {"zero", "one", "minus-one", "monomial", "sparse-small"};
static double fill_message(IntPolynomial *m, int cls) {
    for (int j = 0; j < N; j++) m->coefs[j] = 0;
    double l1 = 0;
    switch (cls) {
        case 0: break;
        case 1: m->coefs[0] = 1; l1 = 1; break;
        case 2: m->coefs[0] = -1; l1 = 1; break;
        case 3: { int js[] = {0, 1, N - 1, (int) rng.below(N)}; m->coefs[js[rng.below(4)]] = rng.coin() ? 1 : -1; l1 = 1; break; }
        case 4: for (int t = 0; t < 6; t++) { int j = rng.below(N); int v = (int) rng.range(-2, 2); l1 += abs(v) - abs(m->coefs[j]); m->coefs[j] = v; } break;
    }
    return l1;
}
static const char *ccls_name[] = {"random", "all-INT32_MAX", "alternating-extremes"};
static void fill_tlwe(const Ctx &c, TLweSample *s, int cls) {
    for (int i = 0; i <= c.k; i++) for (int j = 0; j < N; j++)
        s->a[i].coefsT[j] = cls == 0 ? rng.i32() : cls == 1 ? INT32_MAX : ((j + i) & 1 ? INT32_MIN : INT32_MAX);
    s->current_variance = 0;
}

static double worst_ratio = 0;

// |got - want| per coefficient within bound; returns max abs error
static double check_phase(const Ctx &c, const char *what, const std::vector<U> &got, const std::vector<U> &want, double bound, const J &ctx) {
    double mx = 0; int at = 0;
    for (int j = 0; j < N; j++) { double d = fabs((double) (int32_t) (got[j] - want[j])); if (d > mx) { mx = d; at = j; } }
    out.evaluations++;
    if (mx / bound > worst_ratio) worst_ratio = mx / bound;
    if (mx > bound) {
        J d = ctx; d.s("what", what).s("config", c.cfg).d("max_abs_error_units", mx).d("bound_units", bound).i("coef", at).u("got", got[at]).u("want", want[at]);
        out.viol(std::string("extprod:") + what + (mx > 64 * bound ? ":gross" : ":bound"), d);
    }
    return mx;
}

// noise level of products with noisy rows, measured: 1-message, uniformly random TLWE samples, fresh rows each time; the mean square
// of the phase error over all coefficients against the analytic variance (k+1) l N (Bg/2)^2 alpha^2 (centred digits give about a
// third of it; the check, offline, is "not above the bound" with 8 standard errors)
static void product_noise_level(Ctx &c, int products, double alpha) {
    if (alpha <= 0) return;
    TGswSample *A = new_TGswSample(c.tg); TGswSampleFFT *AF = new_TGswSampleFFT(c.tg);
    TLweSample *cin = new_TLweSample(c.tl), *r = new_TLweSample(c.tl);
    IntPolynomial *m = new_IntPolynomial(N); for (int j = 0; j < N; j++) m->coefs[j] = 0; m->coefs[0] = 1;
    std::vector<U> phc, ph; double ss[2] = {0, 0}; uint64_t cnt = 0;
    for (int q = 0; q < products; q++) {
        VH_OP("product-noise-level:%s", c.cfg.c_str());
        tGswSymEncrypt(A, m, alpha, c.key); tGswToFFTConvert(AF, A, c.tg);
        fill_tlwe(c, cin, 0);
        ref_tlwe_phase(phc, cin, c.key->key, N, c.k);
        tGswExternProduct(r, A, cin, c.tg); ref_tlwe_phase(ph, r, c.key->key, N, c.k);
        for (int j = 0; j < N; j++) { double e = (double) (int32_t) (ph[j] - phc[j]); ss[0] += e * e; }
        tLweCopy(r, cin, c.tl); tGswFFTExternMulToTLwe(r, AF, c.tg); ref_tlwe_phase(ph, r, c.key->key, N, c.k);
        for (int j = 0; j < N; j++) { double e = (double) (int32_t) (ph[j] - phc[j]); ss[1] += e * e; }
        cnt += N; out.evaluations += 2;
    }
    double s2 = pow(c.noisy_sigma_units(alpha), 2);
    out.stat(J().s("kind", "extprod-noise").s("config", c.cfg).u("coefficients", cnt).i("products", products).d("mean_square_over_bound_coef_domain", ss[0] / cnt / s2).d("mean_square_over_bound_fft_domain", ss[1] / cnt / s2).d("alpha", alpha));
    out.cell(c.cfg + ":product-noise-level", products);
    delete_IntPolynomial(m); delete_TLweSample(r); delete_TLweSample(cin); delete_TGswSampleFFT(AF); delete_TGswSample(A);
}

static void extern_products(Ctx &c, int reps, double alpha) {
    TGswSample *A = new_TGswSample(c.tg);
    TGswSampleFFT *AF = new_TGswSampleFFT(c.tg);
    TGswSample *Aback = new_TGswSample(c.tg);
    TLweSample *cin = new_TLweSample(c.tl), *r1 = new_TLweSample(c.tl), *r2 = new_TLweSample(c.tl), *r3 = new_TLweSample(c.tl);
    IntPolynomial *m = new_IntPolynomial(N);
    std::vector<U> phc, want, ph1, ph2, ph3; std::vector<int32_t> phc_i(N);
    for (int rep = 0; rep < reps; rep++) {
        int mc = rep < 5 ? rep : (int) rng.below(5), cc = (int) rng.below(3);
        bool noisy = alpha > 0 && rng.coin();
        double l1 = fill_message(m, mc);
        if (noisy) { VH_OP("tGswSymEncrypt:%s", c.cfg.c_str()); tGswSymEncrypt(A, m, alpha, c.key); }
        else build_noiseless(c, A, m);
        fill_tlwe(c, cin, cc);
        ref_tlwe_phase(phc, cin, c.key->key, N, c.k);
        for (int j = 0; j < N; j++) phc_i[j] = (int32_t) phc[j];
        ref_negacyclic(want, m->coefs, phc_i.data(), N);
        double bound = c.det_bound_units(l1) + (noisy ? 8 * c.noisy_sigma_units(alpha) : 0);
        J ctx; ctx.s("message", mcls_name[mc]).s("tlwe_class", ccls_name[cc]).b("noisy_rows", noisy).d("m_l1", l1);
        uint64_t hA = 0; for (int p = 0; p < c.tg->kpl; p++) for (int i = 0; i <= c.k; i++) hA = fnv1a(A->all_sample[p].a[i].coefsT, 4 * N, hA ? hA : 1469598103934665603ULL);
        VH_OP("tGswExternProduct:%s", c.cfg.c_str());
        uint64_t hcin = 7; for (int i = 0; i <= c.k; i++) hcin = fnv1a(cin->a[i].coefsT, 4 * N, hcin);
        // the same input sample is used for several products in a row (one data sample against many selectors):
        // every product must still be m * phase(c) for the phase c had before the sequence
        int repeats = 1 + (rep % 4 == 0 ? 5 : 0);
        for (int q = 0; q < repeats; q++) {
            tGswExternProduct(r1, A, cin, c.tg);
            ref_tlwe_phase(ph1, r1, c.key->key, N, c.k);
            check_phase(c, q == 0 ? "tGswExternProduct" : "tGswExternProduct(repeated-on-same-input)", ph1, want, bound, ctx);
        }
        { uint64_t h2 = 7; for (int i = 0; i <= c.k; i++) h2 = fnv1a(cin->a[i].coefsT, 4 * N, h2); out.evaluations++;
          if (h2 != hcin) out.viol("extprod:tlwe-input-modified", J().s("config", c.cfg).s("op", "tGswExternProduct").i("products_on_same_input", repeats)); }
        // the result object is the TLWE operand itself (in-place update c <- A . c through the three-argument entry point)
        VH_OP("tGswExternProduct(result is the operand):%s", c.cfg.c_str());
        tLweCopy(r2, cin, c.tl);
        tGswExternProduct(r2, A, r2, c.tg);
        ref_tlwe_phase(ph2, r2, c.key->key, N, c.k);
        check_phase(c, "tGswExternProduct(result==operand)", ph2, want, bound, ctx);
        VH_OP("tGswExternMulToTLwe:%s", c.cfg.c_str());
        tLweCopy(r2, cin, c.tl);
        tGswExternMulToTLwe(r2, A, c.tg);
        ref_tlwe_phase(ph2, r2, c.key->key, N, c.k);
        check_phase(c, "tGswExternMulToTLwe", ph2, want, bound, ctx);
        VH_OP("tGswToFFTConvert:%s", c.cfg.c_str());
        tGswToFFTConvert(AF, A, c.tg);
        VH_OP("tGswFFTExternMulToTLwe:%s", c.cfg.c_str());
        tLweCopy(r3, cin, c.tl);
        tGswFFTExternMulToTLwe(r3, AF, c.tg);
        ref_tlwe_phase(ph3, r3, c.key->key, N, c.k);
        check_phase(c, "tGswFFTExternMulToTLwe", ph3, want, bound, ctx);
        // both domains agree with each other within the same bound (the row noise is common to both)
        check_phase(c, "coef-vs-fft-domain", ph3, ph1, 2 * c.det_bound_units(l1), ctx);
        // the FFT image converts back to the coefficient key within 1 unit
        VH_OP("tGswFromFFTConvert:%s", c.cfg.c_str());
        tGswFromFFTConvert(Aback, AF, c.tg);
        out.evaluations++;
        for (int p = 0; p < c.tg->kpl; p++) for (int i = 0; i <= c.k; i++) for (int j = 0; j < N; j++) {
            int32_t d = A->all_sample[p].a[i].coefsT[j] - Aback->all_sample[p].a[i].coefsT[j];
            if (d > 1 || d < -1) { out.viol("extprod:fft-image-roundtrip", J().s("config", c.cfg).i("row", p).i("poly", i).i("coef", j).i("diff", d)); p = c.tg->kpl; i = c.k + 1; break; }
        }
        uint64_t hA2 = 0; for (int p = 0; p < c.tg->kpl; p++) for (int i = 0; i <= c.k; i++) hA2 = fnv1a(A->all_sample[p].a[i].coefsT, 4 * N, hA2 ? hA2 : 1469598103934665603ULL);
        if (hA != hA2) out.viol("extprod:tgsw-input-modified", J().s("config", c.cfg));
        char cell[160]; snprintf(cell, sizeof cell, "%s:extprod:%s:%s:%s", c.cfg.c_str(), mcls_name[mc], ccls_name[cc], noisy ? "noisy-rows" : "noiseless-rows");
        if (mc == 0) out.tcell(cell); else out.cell(cell);
    }
    delete_IntPolynomial(m); delete_TLweSample(r3); delete_TLweSample(r2); delete_TLweSample(r1); delete_TLweSample(cin);
    delete_TGswSample(Aback); delete_TGswSampleFFT(AF); delete_TGswSample(A);
}

// the remaining public TGSW / TLWE helpers that build or transform the operands of external products
static void helpers(Ctx &c, int reps) {
    const int k = c.k, l = c.l;
    TGswSample *A = new_TGswSample(c.tg), *B = new_TGswSample(c.tg), *C = new_TGswSample(c.tg);
    TGswSampleFFT *AF = new_TGswSampleFFT(c.tg);
    IntPolynomial *m = new_IntPolynomial(N), *p = new_IntPolynomial(N);
    TLweSample *x = new_TLweSample(c.tl), *y = new_TLweSample(c.tl), *y0 = new_TLweSample(c.tl);
    TLweSampleFFT *xf = new_TLweSampleFFT(c.tl), *yf = new_TLweSampleFFT(c.tl);
    std::vector<U> ph, ph0, phx, want, t; std::vector<int32_t> tmp(N);
    auto same_tgsw = [&](const TGswSample *u, const TGswSample *v) { for (int r = 0; r < c.tg->kpl; r++) for (int i = 0; i <= k; i++) if (memcmp(u->all_sample[r].a[i].coefsT, v->all_sample[r].a[i].coefsT, 4 * N)) return false; return true; };
    for (int rep = 0; rep < reps; rep++) {
        // Clear / AddH / AddMuIntH / AddMuH / NoiselessTrivial are consistent with each other (exact integer operations)
        int32_t mi = rep == 0 ? 1 : (int32_t) rng.range(-3, 3);
        VH_OP("tGswClear/AddH/AddMuIntH:%s", c.cfg.c_str());
        build_noiseless(c, A, m); tGswClear(A, c.tg);
        out.evaluations++;
        for (int r = 0; r < c.tg->kpl; r++) for (int i = 0; i <= k; i++) for (int j = 0; j < N; j++) if (A->all_sample[r].a[i].coefsT[j]) { out.viol("extprod:tGswClear-not-zero", J().s("config", c.cfg)); r = c.tg->kpl; i = k + 1; break; }
        tGswAddMuIntH(A, mi, c.tg);
        for (int j = 0; j < N; j++) m->coefs[j] = 0; m->coefs[0] = mi;
        tGswNoiselessTrivial(B, m, c.tg);
        tGswClear(C, c.tg); for (int q = 0; q < (mi > 0 ? mi : 0); q++) tGswAddH(C, c.tg);
        out.evaluations++;
        if (!same_tgsw(A, B)) out.viol("extprod:tGswAddMuIntH-vs-NoiselessTrivial", J().s("config", c.cfg).i("m", mi));
        if (mi > 0 && !same_tgsw(A, C)) out.viol("extprod:tGswAddH-vs-AddMuIntH", J().s("config", c.cfg).i("m", mi));
        // FFT-domain AddH equals the coefficient-domain one
        VH_OP("tGswFFTAddH:%s", c.cfg.c_str());
        tGswFFTClear(AF, c.tg); tGswFFTAddH(AF, c.tg); tGswFromFFTConvert(B, AF, c.tg); tGswClear(C, c.tg); tGswAddH(C, c.tg);
        out.evaluations++;
        for (int r = 0; r < c.tg->kpl; r++) for (int i = 0; i <= k; i++) for (int j = 0; j < N; j++) { int32_t d = B->all_sample[r].a[i].coefsT[j] - C->all_sample[r].a[i].coefsT[j]; if (d > 1 || d < -1) { out.viol("extprod:tGswFFTAddH", J().s("config", c.cfg).i("row", r).i("coef", j).i("diff", d)); r = c.tg->kpl; i = k + 1; break; } }
        // the Add* helpers accumulate: on a target that is not zero (a noiseless encryption with random masks) the result is the
        // old content plus mu*H, word for word (coefficient domain) / within the transform round trip (FFT domain)
        { fill_message(m, 4); build_noiseless(c, A, m);
          auto copy_tgsw = [&](TGswSample *d, const TGswSample *s0) { for (int r = 0; r < c.tg->kpl; r++) tLweCopy(&d->all_sample[r], &s0->all_sample[r], c.tl); };
          auto plus_mu_h = [&](TGswSample *d, int32_t mu) { for (int i = 0; i <= k; i++) for (int j = 0; j < l; j++) d->all_sample[i * l + j].a[i].coefsT[0] += mu * c.tg->h[j]; };
          VH_OP("tGswAddMuIntH(non-zero target):%s", c.cfg.c_str());
          copy_tgsw(B, A); copy_tgsw(C, A); tGswAddMuIntH(B, mi, c.tg); plus_mu_h(C, mi); out.evaluations++;
          if (!same_tgsw(B, C)) out.viol("extprod:tGswAddMuIntH-does-not-accumulate", J().s("config", c.cfg).i("m", mi));
          VH_OP("tGswAddH(non-zero target):%s", c.cfg.c_str());
          copy_tgsw(B, A); copy_tgsw(C, A); tGswAddH(B, c.tg); plus_mu_h(C, 1); out.evaluations++;
          if (!same_tgsw(B, C)) out.viol("extprod:tGswAddH-does-not-accumulate", J().s("config", c.cfg));
          VH_OP("tGswFFTAddH(non-zero target):%s", c.cfg.c_str());
          tGswToFFTConvert(AF, A, c.tg); tGswFFTAddH(AF, c.tg); tGswFromFFTConvert(B, AF, c.tg); out.evaluations++;
          for (int r = 0; r < c.tg->kpl; r++) for (int i = 0; i <= k; i++) for (int j = 0; j < N; j++) { int32_t d = B->all_sample[r].a[i].coefsT[j] - C->all_sample[r].a[i].coefsT[j];
              if (d > 2 || d < -2) { out.viol("extprod:tGswFFTAddH-does-not-accumulate", J().s("config", c.cfg).i("row", r).i("poly", i).i("coef", j).i("diff", d)); r = c.tg->kpl; i = k + 1; break; } }
          // and the step of the original blind rotation built from them: (X^a - 1) * BK + H encrypts X^(a s) in both domains
          out.cell(c.cfg + ":helpers:accumulate-on-non-zero-target"); }
        // (X^a - 1) * TGSW sample: row-wise exact
        fill_message(m, 4); build_noiseless(c, A, m);
        int a = rep % 4 == 0 ? 0 : rep % 4 == 1 ? 2 * N - 1 : (int) rng.below(2 * N);
        VH_OP("tGswMulByXaiMinusOne:%s", c.cfg.c_str());
        tGswMulByXaiMinusOne(B, a, A, c.tg);
        out.evaluations++;
        for (int r = 0; r < c.tg->kpl; r++) for (int i = 0; i <= k; i++) {
            ref_mul_xai(t, a, A->all_sample[r].a[i].coefsT, N);
            for (int j = 0; j < N; j++) if ((U) B->all_sample[r].a[i].coefsT[j] != t[j] - (U) A->all_sample[r].a[i].coefsT[j]) { out.viol("extprod:tGswMulByXaiMinusOne", J().s("config", c.cfg).i("a", a).i("row", r).i("poly", i).i("coef", j)); r = c.tg->kpl; i = k + 1; break; }
        }
        // TLWE: result += p * sample (FFT products per component): phases add up within the FFT tolerance of small integer polynomials
        for (int j = 0; j < N; j++) p->coefs[j] = (int32_t) rng.range(-8, 8);
        fill_tlwe(c, x, rep % 3); fill_tlwe(c, y0, (rep + 1) % 3); tLweCopy(y, y0, c.tl); y->current_variance = 0.25; x->current_variance = 0.5;
        ref_tlwe_phase(phx, x, c.key->key, N, k); ref_tlwe_phase(ph0, y0, c.key->key, N, k);
        VH_OP("tLweAddMulRTo:%s", c.cfg.c_str());
        tLweAddMulRTo(y, p, x, c.tl);
        ref_tlwe_phase(ph, y, c.key->key, N, k);
        for (int j = 0; j < N; j++) tmp[j] = (int32_t) phx[j];
        ref_negacyclic(want, p->coefs, tmp.data(), N); for (int j = 0; j < N; j++) want[j] += ph0[j];
        check_phase(c, "tLweAddMulRTo", ph, want, 2.0 * (1 + k * N) + 1, J().i("p_inf", 8));
        // FFT-domain TLWE helpers: conversion round trip, clear, accumulate
        VH_OP("tLweToFFTConvert/FromFFTConvert:%s", c.cfg.c_str());
        tLweToFFTConvert(xf, x, c.tl); tLweFromFFTConvert(y, xf, c.tl);
        out.evaluations++;
        for (int i = 0; i <= k; i++) for (int j = 0; j < N; j++) { int32_t d = y->a[i].coefsT[j] - x->a[i].coefsT[j]; if (d > 1 || d < -1) { out.viol("extprod:tlwe-fft-roundtrip", J().s("config", c.cfg).i("poly", i).i("coef", j).i("diff", d)); i = k + 1; break; } }
        VH_OP("tLweFFTClear/AddMulRTo:%s", c.cfg.c_str());
        { LagrangeHalfCPolynomial *pf = new_LagrangeHalfCPolynomial(N); IntPolynomial_ifft(pf, p);
          tLweFFTClear(yf, c.tl); tLweFFTAddMulRTo(yf, pf, xf, c.tl); tLweFromFFTConvert(y, yf, c.tl);
          ref_tlwe_phase(ph, y, c.key->key, N, k); ref_negacyclic(want, p->coefs, tmp.data(), N);
          check_phase(c, "tLweFFTAddMulRTo", ph, want, 2.0 * (1 + k * N) + 1, J().i("p_inf", 8));
          delete_LagrangeHalfCPolynomial(pf); }
        char cell[128]; snprintf(cell, sizeof cell, "%s:helpers:rep%d", c.cfg.c_str(), rep % 4); out.cell(cell);
    }
    (void) l;
    delete_TLweSampleFFT(yf); delete_TLweSampleFFT(xf); delete_TLweSample(y0); delete_TLweSample(y); delete_TLweSample(x);
    delete_IntPolynomial(p); delete_IntPolynomial(m); delete_TGswSampleFFT(AF); delete_TGswSample(C); delete_TGswSample(B); delete_TGswSample(A);
}

static const char *ecls_name[] = {"all-zero", "all-2N-1", "single-nonzero", "random", "mixed-0-and-2N-1", "all-N", "mixed-special-exponents(1,N-1,N,N+1,2N-2)"};

static void blind_rotations(Ctx &c, int n, int reps, double alpha) {
    // bootstrapping-key style array: bk[i] encrypts s_i in {0,1}
    std::vector<int32_t> s(n); for (auto &x: s) x = (int32_t) rng.below(2);
    TGswSample *bk = new_TGswSample_array(n, c.tg);
    TGswSampleFFT *bkF = new_TGswSampleFFT_array(n, c.tg);
    IntPolynomial *m = new_IntPolynomial(N);
    for (int i = 0; i < n; i++) {
        for (int j = 0; j < N; j++) m->coefs[j] = 0; m->coefs[0] = s[i];
        if (alpha > 0 && (i & 1)) tGswSymEncryptInt(&bk[i], s[i], alpha, c.key); else build_noiseless(c, &bk[i], m);
        tGswToFFTConvert(&bkF[i], &bk[i], c.tg);
    }
    TLweSample *acc0 = new_TLweSample(c.tl), *acc1 = new_TLweSample(c.tl), *acc2 = new_TLweSample(c.tl);
    std::vector<int32_t> bara(n);
    std::vector<U> ph0, ph1, ph2, want; std::vector<int32_t> ph0_i(N);
    for (int rep = 0; rep < reps; rep++) {
        int ec = rep < 7 ? rep : (int) rng.below(7), cc = (int) rng.below(3);   // classes drawn independently of the counter that selects the variants
        bool coef_variant = n <= 4 || rep < 7 || rng.below(3) == 0;
        int64_t S = 0; int active = 0;
        const int special_exp[5] = {1, N - 1, N, N + 1, 2 * N - 2};
        for (int i = 0; i < n; i++) {
            int a = ec == 0 ? 0 : ec == 1 ? 2 * N - 1 : ec == 2 ? (i == rep % n ? 1 + (int) rng.below(2 * N - 1) : 0) : ec == 3 ? (int) rng.below(2 * N) : ec == 5 ? N : ec == 6 ? special_exp[rng.below(5)] : (rng.coin() ? 0 : 2 * N - 1);
            bara[i] = a; S += (int64_t) a * s[i]; if (a) active++;
        }
        fill_tlwe(c, acc0, cc);
        ref_tlwe_phase(ph0, acc0, c.key->key, N, c.k);
        for (int j = 0; j < N; j++) ph0_i[j] = (int32_t) ph0[j];
        ref_mul_xai(want, (int) (S % (2 * N)), ph0_i.data(), N);
        // per active CMux: one external product with |m|_1 <= 1 applied to (X^a - 1) ACC; error adds up, later rotations only permute it
        double bound = active * (c.det_bound_units(1) + (alpha > 0 ? 8 * c.noisy_sigma_units(alpha) : 0)) + 1;
        J ctx; ctx.s("exponents", ecls_name[ec]).s("tlwe_class", ccls_name[cc]).i("n", n).i("active", active).i("rotation", S % (2 * N));
        VH_OP("tfhe_blindRotate_FFT:%s:n=%d", c.cfg.c_str(), n);
        tLweCopy(acc1, acc0, c.tl);
        tfhe_blindRotate_FFT(acc1, bkF, bara.data(), n, c.tg);
        ref_tlwe_phase(ph1, acc1, c.key->key, N, c.k);
        check_phase(c, "tfhe_blindRotate_FFT", ph1, want, bound, ctx);
        if (coef_variant) {
            VH_OP("tfhe_blindRotate:%s:n=%d", c.cfg.c_str(), n);
            tLweCopy(acc2, acc0, c.tl);
            tfhe_blindRotate(acc2, bk, bara.data(), n, c.tg);
            ref_tlwe_phase(ph2, acc2, c.key->key, N, c.k);
            check_phase(c, "tfhe_blindRotate", ph2, want, bound, ctx);
            // the two paths see accumulators that differ by a few units after the first CMux; a few units can flip a digit
            // boundary (d_l jumps by Bg-1, d_(l-1) by 1), so with noisy rows the *noise terms* of the two paths are only equal
            // in distribution: they agree within the same analytic error bound, not within the FFT rounding alone
            check_phase(c, "blindRotate-coef-vs-fft", ph2, ph1, 2 * bound, ctx);
        }
        if (ec == 0) {   // nothing to rotate: the accumulator must be bit-identical
            out.evaluations++;
            for (int i = 0; i <= c.k; i++) if (memcmp(acc1->a[i].coefsT, acc0->a[i].coefsT, 4 * N)) { out.viol("extprod:blindrotate-zero-exponents-changed-acc", J().s("config", c.cfg)); break; }
        }
        char cell[160]; snprintf(cell, sizeof cell, "%s:blindrotate:n=%d:%s:%s", c.cfg.c_str(), n, ecls_name[ec], ccls_name[cc]);
        if (ec == 0) out.tcell(cell); else out.cell(cell);
    }
    delete_TLweSample(acc2); delete_TLweSample(acc1); delete_TLweSample(acc0); delete_IntPolynomial(m);
    delete_TGswSampleFFT_array(n, bkF); delete_TGswSample_array(n, bk);
}

int main(int argc, char **argv) {
    Args args(argc, argv);
    out.open(args.s("out", "-"));
    install_crash_handler();
    uint64_t seed = args.i("seed", 1);
    // process history: products and blind rotations with a key of another layout (k, l, Bgbit all different) come first
    if (args.i("prelude", 0)) {
        Ctx p; p.k = args.i("k", 1) == 1 ? 2 : 1; p.l = args.i("l", 3) == 2 ? 3 : 2; p.Bgbit = args.i("Bgbit", 7) == 9 ? 6 : 9;
        rng.reseed(seed * 7919ull + 5); seed_library(seed * 13 + 1);
        double a0 = ldexp(1.0, -27);
        p.tl = new_TLweParams(N, p.k, a0, 0.25); p.tg = new_TGswParams(p.l, p.Bgbit, p.tl); p.key = new_TGswKey(p.tg); tGswKeyGen(p.key);
        { char b[64]; snprintf(b, sizeof b, "k%d.l%d.Bg%d", p.k, p.l, p.Bgbit); p.cfg = b; }
        extern_products(p, 4, a0); helpers(p, 2); blind_rotations(p, 3, 3, a0);
        delete_TGswKey(p.key); delete_TGswParams(p.tg); delete_TLweParams(p.tl);
        out.cell("history:other-layout-used-first-in-this-process");
    }
    Ctx c; c.k = args.i("k", 1); c.l = args.i("l", 3); c.Bgbit = args.i("Bgbit", 7);
    rng.reseed(seed * 1000003ull + c.k * 3 + c.l * 11 + c.Bgbit);
    seed_library(seed * 17 + c.l);
    double alpha = args.d("alpha", ldexp(1.0, -25));
    c.tl = new_TLweParams(N, c.k, alpha, 0.25);
    c.tg = new_TGswParams(c.l, c.Bgbit, c.tl);
    c.key = new_TGswKey(c.tg);
    tGswKeyGen(c.key);
    { char b[64]; snprintf(b, sizeof b, "k%d.l%d.Bg%d", c.k, c.l, c.Bgbit); c.cfg = b; }
    extern_products(c, args.i("reps", 30), alpha);
    product_noise_level(c, args.i("nreps", 24), alpha);
    helpers(c, args.i("hreps", 8));
    std::stringstream ns(args.s("n", "1,4,16")); std::string t;
    while (std::getline(ns, t, ',')) blind_rotations(c, atoi(t.c_str()), args.i("rreps", 15), alpha);
    out.stat(J().s("kind", "extprod").s("config", c.cfg).d("worst_error_over_bound", worst_ratio).d("det_bound_units_m1", c.det_bound_units(1)).d("noisy_sigma_units", c.noisy_sigma_units(alpha)));
    out.sample(J().s("config", c.cfg).d("alpha_noisy_rows", alpha).d("worst_error_over_bound", worst_ratio).s("messages", "0,1,-1,+-X^j,sparse in [-2,2]").s("exponent_classes", "all-0,all-(2N-1),single,random,mixed"));
    delete_TGswKey(c.key); delete_TGswParams(c.tg); delete_TLweParams(c.tl);
    out.finish();
    return 0;
}
