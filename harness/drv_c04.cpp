// C04: bootstrapping maps the rounded input phase through the test polynomial exactly.
//   p = round(2N b) - sum_i round(2N a_i) s_i (mod 2N), predicted by the harness with its own rounding and key arithmetic;
//   output must encrypt +mu for p in [0,N), -mu otherwise (v_p of the anticyclic extension for an arbitrary test polynomial v).
#include "vh.hpp"
VH_MAIN_GLOBALS
using namespace vh;

static Rng rng;

struct Ctx {
    PSet *ps; TFheGateBootstrappingSecretKeySet *sk;
    int n, N, k, l, Bgbit, t, bb; double tol_woks, tol_ks, tol_struct;
    const int32_t *s;              // LWE key
    std::vector<int32_t> ext;      // extracted key (k*N)
    std::string cfg;
};

static void make_tolerances(Ctx &c) {
    const double u = ldexp(1.0, -32);
    double a_bk = c.ps->bk_stdev, a_ks = c.ps->ks_stdev;
    double a_eff2 = a_bk * a_bk + (1.5 * u) * (1.5 * u);   // library TLWE encryption uses the FFT: +-1..2 units per row
    double Bg = ldexp(1.0, c.Bgbit);
    // decomposition truncation: each coefficient of the truncation polynomial lies in [0, ut), ut = 2^-(l Bgbit): it is NOT
    // centred. Through the phase (e_b - sum e_a * s) coefficient j gets the mean (ut/2)(1 - sum_i D_ij), D_ij = (ones of s_i
    // at positions <= j) - (ones above j), between -w_i and w_i. For random rotation amounts the coefficient that ends up
    // extracted is uniformly placed: variance (ut/2)^2 * sum w_i^2/3; for structured exponent vectors all the means can line
    // up: worst case n (ut/2)(1 + sum w_i), kept as a separate deterministic allowance (tol_struct).
    double ut = ldexp(1.0, -c.l * c.Bgbit), sw = 0, sw2 = 0;
    for (int i = 0; i < c.k; i++) { double w = 0; for (int j = 0; j < c.N; j++) w += c.ext[i * c.N + j]; sw += w; sw2 += w * w; }
    double v_trunc = (double) c.n * ut * ut * (sw2 + 1 + sw) / 12.0;
    double v_br = (double) c.n * (c.k + 1) * c.l * c.N * (Bg * Bg / 12.0) * a_eff2 + v_trunc
                  + (double) c.n * (c.k + 1) * c.l * (1 + c.k * c.N / 2.0) * pow(2 * ceil(Bg / 2 / 512.0) * u, 2); // FFT error of each product (C10)
    double base = ldexp(1.0, c.bb);
    double v_ks = (double) c.k * c.N * c.t * (1 - 1 / base) * a_ks * a_ks + (c.k * c.N / 2.0) * ldexp(1.0, -2 * c.t * c.bb) / 12.0;
    c.tol_woks = 8 * sqrt(v_br) + 8 * u;
    c.tol_ks = 8 * sqrt(v_br + v_ks) + 8 * u;
    c.tol_struct = (double) c.n * (ut / 2) * (1 + sw);
}

// harness rounding of x (torus32) to Z_{2N}, with tie flag
static inline int rnd2N(uint32_t x, int N2, bool *tie) { return (int) ref_modswitch(x, N2, tie); }

// possible values of p (ties: either neighbour)
static std::vector<int> predict_p(const Ctx &c, const LweSample *x, int *nties) {
    const int N2 = 2 * c.N;
    bool tb; int barb = rnd2N((uint32_t) x->b, N2, &tb);
    int64_t S = 0; std::vector<int> tie_idx;
    for (int i = 0; i < c.n; i++) {
        if (!c.s[i]) continue;
        bool ti; S += rnd2N((uint32_t) x->a[i], N2, &ti);
        if (ti) tie_idx.push_back(i);
    }
    *nties = (int) tie_idx.size() + (tb ? 1 : 0);
    std::set<int> ps;
    int base = (int) (((barb - S) % N2 + N2) % N2);
    // a tie rounds up in the harness model; the other admissible neighbour is one less
    int nb = tb ? 2 : 1;
    for (int db = 0; db < nb; db++) {
        if (tie_idx.size() > 6) { ps.insert(-1); break; }
        for (int m = 0; m < (1 << tie_idx.size()); m++) {
            int adj = -db + __builtin_popcount(m);
            ps.insert(((base + adj) % N2 + N2) % N2);
        }
    }
    return std::vector<int>(ps.begin(), ps.end());
}

static double torus_dist(U a, U b) { return fabs((double) (int32_t) (a - b)) / 4294967296.0; }

enum Entry { WOKS_FFT, KS_FFT, WOKS, KS };
static const char *entry_name[] = {"tfhe_bootstrap_woKS_FFT", "tfhe_bootstrap_FFT", "tfhe_bootstrap_woKS", "tfhe_bootstrap"};

static double max_err[4] = {0, 0, 0, 0};

static const LweBootstrappingKey *use_bk = nullptr; static const LweBootstrappingKeyFFT *use_bkf = nullptr;   // stand-alone key objects (mode d)
static std::string *last_output = nullptr;
static void run_bootstrap(Ctx &c, int entry, Torus32 mu, const LweSample *x, const char *xclass, bool exact_expected) {
    const LweBootstrappingKey *bk = use_bk ? use_bk : c.sk->cloud.bk; const LweBootstrappingKeyFFT *bkf = use_bkf ? use_bkf : c.sk->cloud.bkFFT;
    bool ks = entry == KS_FFT || entry == KS;
    const LweParams *outp = ks ? c.ps->lwe : &c.ps->tlwe->extracted_lweparams;
    GuardedLwe g(outp);
    VH_OP("%s:%s:%s", entry_name[entry], c.cfg.c_str(), xclass);
    switch (entry) {
        case WOKS_FFT: tfhe_bootstrap_woKS_FFT(g.s, bkf, mu, x); break;
        case KS_FFT: tfhe_bootstrap_FFT(g.s, bkf, mu, x); break;
        case WOKS: tfhe_bootstrap_woKS(g.s, bk, mu, x); break;
        case KS: tfhe_bootstrap(g.s, bk, mu, x); break;
    }
    U ph = ks ? ref_lwe_phase(g.s, c.s, c.n) : ref_lwe_phase(g.s, c.ext.data(), c.k * c.N);
    if (last_output) { last_output->append((const char *) g.s->a, 4 * outp->n); last_output->append((const char *) &g.s->b, 4); }
    int nties; std::vector<int> ps = predict_p(c, x, &nties);
    out.evaluations++;
    if (ps.size() == 1 && ps[0] == -1) { out.tcell("too-many-ties"); return; }
    double tol = exact_expected && !ks ? 0.0 : (ks ? c.tol_ks : c.tol_woks);
    bool ok = false; double best = 1;
    for (int p: ps) {
        U want = p < c.N ? (U) mu : (U) 0 - (U) mu;
        double d = torus_dist(ph, want);
        if (d < best) best = d;
        if (d <= tol) ok = true;
    }
    if (best > max_err[entry]) max_err[entry] = best;
    if (!ok) {
        char key[96]; snprintf(key, sizeof key, "bootstrap:%s:%s", entry_name[entry], best > 0.01 && fabs((double) mu / 4294967296.0) > 0.02 ? "wrong-value" : "noise-bound");
        out.viol(key, J().s("entry", entry_name[entry]).s("config", c.cfg).s("x_class", xclass).i("mu", mu).raw("predicted_p", jarr(ps)).i("ties", nties)
                .u("phase_out", ph).d("distance_to_expected", best).d("tolerance", tol).u("x_b", (U) x->b));
    }
    if (!g.g.canary_ok()) out.viol("bootstrap:underrun", J().s("entry", entry_name[entry]).s("config", c.cfg));
}

// (a) trivial samples: all 2N values of p, centre and both edges of the rounding interval
static void mode_trivial(Ctx &c, int entry_mask) {
    const int N2 = 2 * c.N; const uint32_t width = (uint32_t) (4294967296.0 / N2), half = width / 2;
    LweSample *x = new_LweSample(c.ps->lwe);
    for (int i = 0; i < c.n; i++) x->a[i] = 0;
    Torus32 mus[] = {(Torus32) (1u << 29), (Torus32) rng.i32(), 0, INT32_MIN};
    for (int p = 0; p < N2; p++) {
        int32_t offs[] = {0, (int32_t) half - 1, -(int32_t) half + 1, (int32_t) half, -(int32_t) half};
        const char *on[] = {"trivial:centre", "trivial:upper-edge-1", "trivial:lower-edge+1", "trivial:upper-tie", "trivial:lower-tie"};
        for (int o = 0; o < 5; o++) {
            x->b = (Torus32) ((uint32_t) p * width + (uint32_t) offs[o]);
            for (int e = 0; e < 4; e++) {
                if (!(entry_mask & (1 << e))) continue;
                // with the key switch (e=1,3) sample the p values, the rotation part is identical
                if ((e == KS_FFT || e == KS) && (p % 64 != 0 && p != c.N - 1 && p != c.N && p != N2 - 1)) continue;
                if ((e == WOKS) && (p % 8 != 0 && p != c.N - 1 && p != c.N && p != N2 - 1)) continue;
                Torus32 mu = mus[(p + o) % 4]; if (o == 0) mu = mus[0];
                run_bootstrap(c, e, mu, x, on[o], true);
            }
        }
    }
    char cell[128]; snprintf(cell, sizeof cell, "%s:trivial:all-2N-p:centre+edges+ties", c.cfg.c_str()); out.cell(cell, N2 * 5);
    delete_LweSample(x);
}

// (b) random masks, b solved so that p takes chosen values
static void mode_masks(Ctx &c, int entry_mask, int count) {
    const int N2 = 2 * c.N; const uint32_t width = (uint32_t) (4294967296.0 / N2), half = width / 2;
    LweSample *x = new_LweSample(c.ps->lwe);
    std::vector<int> targets = {0, 1, c.N - 1, c.N, c.N + 1, N2 - 1};
    for (int it = 0; it < count; it++) {
        int cls = it < 5 ? it : (int) rng.below(5);   // the class must not be tied to the counter that also selects the slow variants
        bool slow_variants = it < 10 || rng.below(4) == 0;
        for (int i = 0; i < c.n; i++) {
            uint32_t a = rng.u32();
            if (cls == 4) a = rng.below(10) < 7 ? (uint32_t) rng.range(-(int64_t) half + 1, (int64_t) half - 1) : rng.u32();   // sparse: most coefficients round to 0, runs of zeros between non-zero ones
            if (cls == 1) a = (uint32_t) rng.below(N2) * width + (rng.coin() ? half - 1 : 0u - half + 1);  // every mask coefficient at a rounding edge
            if (cls == 2) a = rng.coin() ? 0xFFFFFFFFu - rng.below(3) : (uint32_t) rng.below(3);            // wrap-around
            x->a[i] = (int32_t) a;
        }
        int64_t S = 0; bool ti;
        for (int i = 0; i < c.n; i++) if (c.s[i]) S += rnd2N((uint32_t) x->a[i], N2, &ti);
        int p = it < (int) targets.size() * 3 ? targets[it % targets.size()] : (int) rng.below(N2);
        int barb = (int) (((p + S) % N2 + N2) % N2);
        uint32_t jit = cls == 3 ? (rng.coin() ? half - 1 : 0u - half + 1) : (uint32_t) rng.range(-(int64_t) half + 1, (int64_t) half - 1);
        uint32_t bbar = (uint32_t) barb * width + jit;
        // b is the *phase-side* value: x->b itself is what gets rounded
        x->b = (int32_t) bbar;
        Torus32 mu = it % 5 == 0 ? (Torus32) rng.i32() : (Torus32) (1u << 29);
        const char *cn[] = {"mask:random", "mask:all-at-rounding-edge", "mask:wraparound", "mask:b-at-edge", "mask:sparse(runs-of-zero-exponents)"};
        for (int e = 0; e < 4; e++) {
            if (!(entry_mask & (1 << e))) continue;
            if ((e == WOKS || e == KS) && !slow_variants) continue;   // coefficient-domain variants are slow: a random quarter of the cases
            run_bootstrap(c, e, mu, x, cn[cls], false);
        }
        char cell[160]; snprintf(cell, sizeof cell, "%s:%s:p=%s", c.cfg.c_str(), cn[cls], p == 0 ? "0" : p == 1 ? "1" : p == c.N - 1 ? "N-1" : p == c.N ? "N" : p == c.N + 1 ? "N+1" : p == N2 - 1 ? "2N-1" : "random");
        out.cell(cell);
    }
    delete_LweSample(x);
}

// (d) object histories of stand-alone key objects: a coefficient-domain key and the FFT-domain key derived from it are
// independent objects, each usable (with bit-identical results) whatever happens to the other one afterwards: the source key
// re-filled for another secret key, the source key deleted, the derived key deleted.
static void mode_lifetimes(Ctx &c) {
    LweSample *x = new_LweSample(c.ps->lwe);
    std::vector<std::vector<int32_t>> xs;
    for (int it = 0; it < 6; it++) { std::vector<int32_t> v(c.n + 1); for (auto &w: v) w = rng.i32(); xs.push_back(v); }
    auto round_of = [&](int mask, const char *stage) { std::string o; last_output = &o;
        for (auto &v: xs) { memcpy(x->a, v.data(), 4 * c.n); x->b = v[c.n]; x->current_variance = 1e-6;
            for (int e = 0; e < 4; e++) if (mask & (1 << e)) run_bootstrap(c, e, (Torus32) (1u << 29), x, stage, false); }
        last_output = nullptr; return o; };
    LweBootstrappingKey *bk = new_LweBootstrappingKey(c.t, c.bb, c.ps->lwe, c.ps->tgsw);
    VH_OP("lifetimes:tfhe_createLweBootstrappingKey");
    tfhe_createLweBootstrappingKey(bk, c.sk->lwe_key, c.sk->tgsw_key);
    LweBootstrappingKeyFFT *bkf = new_LweBootstrappingKeyFFT(bk);
    use_bk = bk; use_bkf = bkf;
    const int FFT = (1 << WOKS_FFT) | (1 << KS_FFT), COEF = (1 << WOKS) | (1 << KS);
    std::string f0 = round_of(FFT, "lifetime:fresh"), c0 = round_of(1 << KS, "lifetime:fresh");
    auto same = [&](const std::string &a, const std::string &b, const char *what) { out.evaluations++;
        if (a != b) out.viol("bootstrap:key-object-history", J().s("config", c.cfg).s("history", what).s("note", "same key object, same inputs, different output bits")); };
    // the source key object is re-filled for an unrelated secret key: the derived FFT key still belongs to the first one
    { TFheGateBootstrappingSecretKeySet *sk2 = new_random_gate_bootstrapping_secret_keyset(c.ps->gb);
      VH_OP("lifetimes:refill-source-key");
      tfhe_createLweBootstrappingKey(bk, sk2->lwe_key, sk2->tgsw_key);
      same(f0, round_of(FFT, "lifetime:source-key-refilled"), "FFT key used after its source key object was re-filled for another secret key");
      // the re-filled object itself now belongs to the second secret key, exactly as a freshly allocated one would
      { Ctx c2 = c; c2.sk = sk2; c2.s = sk2->lwe_key->key; for (int i = 0; i < c.k; i++) for (int j = 0; j < c.N; j++) c2.ext[i * c.N + j] = sk2->tgsw_key->tlwe_key.key[i].coefs[j];
        make_tolerances(c2);
        for (auto &v: xs) { memcpy(x->a, v.data(), 4 * c.n); x->b = v[c.n]; x->current_variance = 1e-6; run_bootstrap(c2, KS, (Torus32) (1u << 29), x, "lifetime:key-object-refilled-in-place", false); run_bootstrap(c2, WOKS, (Torus32) (1u << 29), x, "lifetime:key-object-refilled-in-place", false); }
        LweBootstrappingKeyFFT *bkf3 = new_LweBootstrappingKeyFFT(bk); const LweBootstrappingKeyFFT *keep = use_bkf; use_bkf = bkf3;
        for (auto &v: xs) { memcpy(x->a, v.data(), 4 * c.n); x->b = v[c.n]; run_bootstrap(c2, KS_FFT, (Torus32) (1u << 29), x, "lifetime:key-object-refilled-in-place", false); }
        use_bkf = keep; delete_LweBootstrappingKeyFFT(bkf3); }
      // a second FFT key derived now belongs to the second secret key, and deleting it leaves the first untouched
      LweBootstrappingKeyFFT *bkf2 = new_LweBootstrappingKeyFFT(bk); delete_LweBootstrappingKeyFFT(bkf2);
      same(f0, round_of(FFT, "lifetime:sibling-deleted"), "FFT key used after a sibling FFT key of the same source object was deleted");
      delete_gate_bootstrapping_secret_keyset(sk2); }
    // the source key object is deleted
    VH_OP("lifetimes:delete-source-key");
    use_bk = nullptr; delete_LweBootstrappingKey(bk);
    { std::vector<TorusPolynomial *> churn; for (int i = 0; i < 64; i++) churn.push_back(new_TorusPolynomial(c.N)); for (auto *q: churn) delete_TorusPolynomial(q); }
    same(f0, round_of(FFT, "lifetime:source-key-deleted"), "FFT key used after its source key object was deleted");
    // the other direction: the coefficient-domain key outlives the FFT key derived from it
    bk = new_LweBootstrappingKey(c.t, c.bb, c.ps->lwe, c.ps->tgsw); tfhe_createLweBootstrappingKey(bk, c.sk->lwe_key, c.sk->tgsw_key);
    use_bk = bk; std::string c1 = round_of(1 << KS, "lifetime:fresh");
    { LweBootstrappingKeyFFT *t2 = new_LweBootstrappingKeyFFT(bk); VH_OP("lifetimes:delete-derived-key"); delete_LweBootstrappingKeyFFT(t2); }
    delete_LweBootstrappingKeyFFT(bkf); use_bkf = nullptr;
    same(c1, round_of(1 << KS, "lifetime:derived-key-deleted"), "coefficient-domain key used after the FFT key derived from it was deleted");
    (void) c0; (void) COEF;
    use_bk = nullptr; delete_LweBootstrappingKey(bk);
    // the key set objects: the cloud part of a secret key set after a second key set was generated and deleted
    { std::string g0 = round_of(FFT, "lifetime:keyset");
      TFheGateBootstrappingSecretKeySet *sk3 = new_random_gate_bootstrapping_secret_keyset(c.ps->gb); delete_gate_bootstrapping_secret_keyset(sk3);
      same(g0, round_of(FFT, "lifetime:other-keyset-deleted"), "key set used after another key set of the same parameters was generated and deleted"); }
    char cell[128];
    for (const char *h: {"source-key-refilled", "key-object-refilled-in-place", "sibling-deleted", "source-key-deleted", "derived-key-deleted", "other-keyset-deleted"}) { snprintf(cell, sizeof cell, "%s:lifetime:%s", c.cfg.c_str(), h); out.cell(cell, xs.size()); }
    delete_LweSample(x);
}

// (c) blind-rotate-and-extract with an arbitrary test polynomial, all 2N values of p
static void mode_extract(Ctx &c, int step, bool fft, bool nofft) {
    const int N2 = 2 * c.N, N = c.N, n = c.n;
    TorusPolynomial *v = new_TorusPolynomial(N);
    std::vector<int32_t> bara(n);
    GuardedLwe g(&c.ps->tlwe->extracted_lweparams);
    for (int p = 0; p < N2; p += step) {
        int cls = (int) rng.below(5);   // independent of p (p also selects which cases run the slow coefficient-domain variant)
        for (int j = 0; j < N; j++) v->coefsT[j] = cls == 3 ? (j & 1 ? INT32_MIN : INT32_MAX) : rng.i32();
        int64_t S = 0;
        for (int i = 0; i < n; i++) {
            int a = cls == 0 ? (int) rng.below(N2) : cls == 1 ? (rng.coin() ? 0 : N2 - 1) : cls == 2 ? (i == (p % n) ? (int) rng.below(N2) : 0) : cls == 4 ? (rng.below(3) ? 0 : (int) rng.below(N2)) : (int) rng.below(N2);
            bara[i] = a; S += (int64_t) a * c.s[i];
        }
        int barb = (int) (((p + S) % N2 + N2) % N2);
        U want = p < N ? (U) v->coefsT[p] : (U) 0 - (U) v->coefsT[p - N];
        uint64_t vh = fnv1a(v->coefsT, 4 * N);
        for (int variant = 0; variant < 2; variant++) {
            if (variant == 0 && !fft) continue;
            if (variant == 1 && !nofft) continue;
            if (variant == 1 && p % (step * 8) != 0 && p != N - 1 && p != N && p != N2 - 1 && p != 0) continue;
            VH_OP("%s:%s:p-class", variant == 0 ? "tfhe_blindRotateAndExtract_FFT" : "tfhe_blindRotateAndExtract", c.cfg.c_str());
            if (variant == 0) tfhe_blindRotateAndExtract_FFT(g.s, v, c.sk->cloud.bkFFT->bkFFT, barb, bara.data(), n, c.ps->tgsw);
            else tfhe_blindRotateAndExtract(g.s, v, c.sk->cloud.bk->bk, barb, bara.data(), n, c.ps->tgsw);
            U ph = ref_lwe_phase(g.s, c.ext.data(), c.k * N);
            double d = torus_dist(ph, want);
            out.evaluations++;
            double tolc = c.tol_woks + (cls == 1 || cls == 2 || cls == 4 ? c.tol_struct : 0);
            if (d > tolc)
                out.viol(std::string("blindrotate-extract:") + (variant == 0 ? "fft" : "coef") + (d > 0.01 ? ":wrong-coefficient" : ":noise-bound"),
                         J().s("config", c.cfg).i("p", p).i("barb", barb).i("exponent_class", cls).u("phase_out", ph).u("expected_v_p", want).d("distance", d).d("tolerance", tolc));
            if (fnv1a(v->coefsT, 4 * N) != vh) out.viol("blindrotate-extract:test-polynomial-modified", J().s("config", c.cfg).i("p", p));
        }
    }
    char cell[128]; snprintf(cell, sizeof cell, "%s:extract:arbitrary-v:%s", c.cfg.c_str(), step == 1 ? "all-2N-p" : "sampled-p"); out.cell(cell, N2 / step);
    delete_TorusPolynomial(v);
}

static bool in_prelude = false;
static void run_config(Args &args, uint64_t seed, int n, int k, int l, int Bgbit, int t, int bb, const std::string &modes, int entry_mask, int count, int pstep, int coefdomain) {
    Ctx c;
    c.n = n; c.N = 1024; c.k = k; c.l = l; c.Bgbit = Bgbit;
    c.t = t; c.bb = bb;
    for (double &m: max_err) m = 0;
    double a_bk = args.d("bk_stdev", ldexp(1.0, -31)), a_ks = args.d("ks_stdev", ldexp(1.0, -31));
    rng.reseed(seed * 1000003ull + c.n * 7 + c.k * 3 + c.l * 11 + c.Bgbit);
    seed_library(seed * 31 + c.n);
    const bool share = args.i("shareparams", 0) && !in_prelude;
    c.ps = new PSet(c.n, c.N, c.k, c.l, c.Bgbit, c.t, c.bb, share ? a_bk : a_ks, a_bk, 0.012467, share);
    c.n = c.ps->n;
    if (share) out.cell("parameters:in/out LWE parameters are the accumulator's extracted parameter object (n = k*N)");
    c.cfg = c.ps->name();
    VH_OP("keygen:%s", c.cfg.c_str());
    c.sk = new_random_gate_bootstrapping_secret_keyset(c.ps->gb);
    c.s = c.sk->lwe_key->key;
    c.ext.resize(c.k * c.N);
    for (int i = 0; i < c.k; i++) for (int j = 0; j < c.N; j++) c.ext[i * c.N + j] = c.sk->tgsw_key->tlwe_key.key[i].coefs[j];
    make_tolerances(c);
    if (modes.find('a') != std::string::npos) mode_trivial(c, entry_mask);
    if (modes.find('b') != std::string::npos) mode_masks(c, entry_mask, count);
    if (modes.find('d') != std::string::npos) mode_lifetimes(c);
    if (modes.find('c') != std::string::npos) mode_extract(c, pstep, true, coefdomain);
    out.stat(J().s("kind", "bootstrap-config").s("config", c.cfg).d("tol_woKS", c.tol_woks).d("tol_KS", c.tol_ks).d("tol_structured_extra", c.tol_struct)
                     .d("max_err_woKS_FFT", max_err[0]).d("max_err_KS_FFT", max_err[1]).d("max_err_woKS", max_err[2]).d("max_err_KS", max_err[3]));
    out.sample(J().s("config", c.cfg).s("modes", modes).d("tol_woKS", c.tol_woks).d("tol_KS", c.tol_ks).d("max_err_woKS_FFT", max_err[0]).d("max_err_KS_FFT", max_err[1]));
    delete_gate_bootstrapping_secret_keyset(c.sk);
    delete c.ps;
}

int main(int argc, char **argv) {
    Args args(argc, argv);
    out.open(args.s("out", "-"));
    install_crash_handler();
    uint64_t seed = args.i("seed", 1);
    // process history: another parameter layout (every dimension different, key-switching decomposition included) is generated
    // and bootstrapped with first, so that nothing the library computed once for the first key it saw can leak into the second
    if (args.i("prelude", 0)) {
        int k0 = args.i("k", 1) == 1 ? 2 : 1, t0 = args.i("t", 10) == 3 ? 4 : 3, bb0 = args.i("basebit", 2) == 3 ? 2 : 3;
        int l0 = args.i("l", 3) == 2 ? 3 : 2, bg0 = args.i("Bgbit", 7) == 8 ? 9 : 8;
        in_prelude = true; run_config(args, seed + 1000, 3 + (int) (seed % 3), k0, l0, bg0, t0, bb0, "b", 3, 6, 64, 0); in_prelude = false;
        out.cell("history:other-parameter-layout-used-first-in-this-process");
    }
    run_config(args, seed, args.i("n", 8), args.i("k", 1), args.i("l", 3), args.i("Bgbit", 7), args.i("t", 10), args.i("basebit", 2),
               args.s("modes", "abc"), args.i("entries", 15), args.i("count", 40), args.i("pstep", 1), args.i("coefdomain", 1));
    out.finish();
    return 0;
}
