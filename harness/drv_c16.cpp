// C16: no out-of-bounds access, uninitialised read or leak for any valid configuration.
// This driver only *drives* API lifecycles; the oracles are the sanitizers / memcheck it runs under (reports are parsed and
// keyed by the check) plus LeakSanitizer / memcheck leak checking at exit. It frees everything it creates through the
// matching deletion API, in an order chosen by --order, so that whatever is still unreachable at exit was lost by the library.
#include "gates.hpp"
#include "iokinds.hpp"
#include <thread>
#include <fstream>
#include <atomic>
VH_MAIN_GLOBALS
using namespace vh;

static Rng rng;

static void lifecycle(int n, int k, int l, int Bgbit, int t, int bb, int order, bool heavy_io) {
    PSet *ps = new PSet(n, 1024, k, l, Bgbit, t, bb, ldexp(1., -20), ldexp(1., -30));
    std::string cfg = ps->name();
    const TFheGateBootstrappingParameterSet *gb = ps->gb;
    VH_OP("keygen:%s", cfg.c_str());
    TFheGateBootstrappingSecretKeySet *sk = new_random_gate_bootstrapping_secret_keyset(gb);
    VH_OP("encrypt:%s", cfg.c_str());
    LweSample *in = new_gate_bootstrapping_ciphertext_array(3, gb), *r = new_gate_bootstrapping_ciphertext(gb), *single = new_gate_bootstrapping_ciphertext(gb);
    for (int i = 0; i < 3; i++) bootsSymEncrypt(in + i, (int) rng.below(2), sk);
    bootsSymEncrypt(single, 1, sk);
    volatile int sink = 0;
    for (int g = 0; g < G_COUNT; g++) {
        VH_OP("boots%s:%s", GATES[g].name, cfg.c_str());
        gate_eval(g, r, in, in + 1, in + 2, 1, &sk->cloud);
        sink += bootsSymDecrypt(r, sk);          // the decrypted bit depends on every word of the result (uninitialised reads surface here)
        out.evaluations++;
    }
    // coefficient-domain entry points too
    { LweSample *u = new_LweSample(&gb->tgsw_params->tlwe_params->extracted_lweparams);
      VH_OP("tfhe_bootstrap:%s", cfg.c_str()); tfhe_bootstrap(r, sk->cloud.bk, 1 << 29, in); sink += bootsSymDecrypt(r, sk);
      VH_OP("tfhe_bootstrap_woKS:%s", cfg.c_str()); tfhe_bootstrap_woKS(u, sk->cloud.bk, 1 << 29, in + 1); sink += u->b & 1;
      VH_OP("tfhe_bootstrap_woKS_FFT:%s", cfg.c_str()); tfhe_bootstrap_woKS_FFT(u, sk->cloud.bkFFT, 1 << 29, in + 1); sink += u->b & 1;
      delete_LweSample(u); out.evaluations += 3; }
    // serialisation of every object of this configuration, both transports, then evaluation with the imported key
    std::vector<TFheGateBootstrappingCloudKeySet *> clouds; std::vector<TFheGateBootstrappingSecretKeySet *> secrets;
    for (int tr = 0; tr < (heavy_io ? 2 : 1); tr++) {
        VH_OP("export/import:%s:%s", cfg.c_str(), tr ? "file" : "stream");
        std::string cb = tr ? to_file_bytes([&](FILE *f) { export_tfheGateBootstrappingCloudKeySet_toFile(f, &sk->cloud); }) : to_stream_bytes([&](std::ostream &o) { export_tfheGateBootstrappingCloudKeySet_toStream(o, &sk->cloud); });
        std::string sb = tr ? to_file_bytes([&](FILE *f) { export_tfheGateBootstrappingSecretKeySet_toFile(f, sk); }) : to_stream_bytes([&](std::ostream &o) { export_tfheGateBootstrappingSecretKeySet_toStream(o, sk); });
        std::string pb = to_stream_bytes([&](std::ostream &o) { export_tfheGateBootstrappingParameterSet_toStream(o, gb); });
        std::string ctb = to_stream_bytes([&](std::ostream &o) { export_gate_bootstrapping_ciphertext_toStream(o, single, gb); });
        std::string lk = to_stream_bytes([&](std::ostream &o) { export_lweKey_toStream(o, sk->lwe_key); });
        std::string gk = to_stream_bytes([&](std::ostream &o) { export_tgswKey_toStream(o, sk->tgsw_key); });
        std::string kk = to_stream_bytes([&](std::ostream &o) { export_lweKeySwitchKey_toStream(o, sk->cloud.bk->ks); });
        std::string bb2 = to_stream_bytes([&](std::ostream &o) { export_lweBootstrappingKey_toStream(o, sk->cloud.bk); });
        // the exported bytes are a result: make every byte of them influence control flow, so that memcheck reports
        // uninitialised memory that was merely copied into an export (a definedness check no red-zone tool can do)
        for (const std::string *e: {&cb, &sb, &pb, &ctb, &lk, &gk, &kk, &bb2}) { uint64_t h = fnv1a(e->data(), e->size()); if (h & 1) sink += 1; else sink += 2; }
        TFheGateBootstrappingCloudKeySet *ck2; TFheGateBootstrappingSecretKeySet *sk2;
        if (tr == 0) { std::istringstream i1(cb, std::ios::binary), i2(sb, std::ios::binary); ck2 = new_tfheGateBootstrappingCloudKeySet_fromStream(i1); sk2 = new_tfheGateBootstrappingSecretKeySet_fromStream(i2); }
        else { FILE *f1 = fmemopen((void *) cb.data(), cb.size(), "rb"), *f2 = fmemopen((void *) sb.data(), sb.size(), "rb"); ck2 = new_tfheGateBootstrappingCloudKeySet_fromFile(f1); sk2 = new_tfheGateBootstrappingSecretKeySet_fromFile(f2); fclose(f1); fclose(f2); }
        clouds.push_back(ck2); secrets.push_back(sk2);
        { std::istringstream ip(pb, std::ios::binary); TFheGateBootstrappingParameterSet *p2 = new_tfheGateBootstrappingParameterSet_fromStream(ip);
          LweSample *c2 = new_gate_bootstrapping_ciphertext(p2); std::istringstream ic(ctb, std::ios::binary); import_gate_bootstrapping_ciphertext_fromStream(ic, c2, p2);
          VH_OP("gate-with-imported-key:%s", cfg.c_str());
          bootsNAND(r, c2, in, ck2); sink += bootsSymDecrypt(r, sk2); bootsMUX(r, c2, in + 1, in + 2, ck2); sink += bootsSymDecrypt(r, sk);
          delete_gate_bootstrapping_ciphertext(c2); delete_gate_bootstrapping_parameters(p2); }
        { std::istringstream i1(lk, std::ios::binary), i2(gk, std::ios::binary), i3(kk, std::ios::binary), i4(bb2, std::ios::binary);
          LweKey *a = new_lweKey_fromStream(i1); TGswKey *b = new_tgswKey_fromStream(i2); LweKeySwitchKey *c = new_lweKeySwitchKey_fromStream(i3); LweBootstrappingKey *d = new_lweBootstrappingKey_fromStream(i4);
          sink += a->key[0] + b->key[0].coefs[0] + c->ks0_raw[0].b + d->ks->n;
          delete_LweBootstrappingKey(d); delete_LweKeySwitchKey(c); delete_TGswKey(b); delete_LweKey(a); }
        out.evaluations += 8;
    }
    // deletion in the requested order (objects before the parameters they were built from)
    VH_OP("delete:%s:order=%d", cfg.c_str(), order);
    auto del_cts = [&]() { delete_gate_bootstrapping_ciphertext(single); delete_gate_bootstrapping_ciphertext(r); delete_gate_bootstrapping_ciphertext_array(3, in); };
    auto del_imported = [&]() { for (auto c: clouds) delete_gate_bootstrapping_cloud_keyset(c); for (auto s: secrets) delete_gate_bootstrapping_secret_keyset(s); };
    auto del_sk = [&]() { delete_gate_bootstrapping_secret_keyset(sk); };
    switch (order % 6) {
        case 0: del_cts(); del_imported(); del_sk(); break;
        case 1: del_sk(); del_imported(); del_cts(); break;
        case 2: del_imported(); del_cts(); del_sk(); break;
        case 3: del_sk(); del_cts(); del_imported(); break;
        case 4: del_cts(); del_sk(); del_imported(); break;
        case 5: del_imported(); del_sk(); del_cts(); break;
    }
    delete ps;
    char cell[128]; snprintf(cell, sizeof cell, "lifecycle:%s:order%d", cfg.c_str(), order % 6); out.cell(cell);
    out.sample(J().s("config", cfg).i("delete_order", order % 6).i("transports", heavy_io ? 2 : 1).i("sink", sink));
}

static void iokinds_pass(int reps) {
    IoGen g(rng);
    std::vector<Kind> K = io_kinds();
    for (auto &k: K) for (int rep = 0; rep < reps; rep++) {
        bool heavy = k.name == "CloudKeySet" || k.name == "SecretKeySet";
        if (heavy && rep > 0) continue;
        VH_OP("io:%s", k.name.c_str());
        HP o = k.make(g, rep % 3 == 0 ? 0 : 1);
        std::string s1 = to_stream_bytes([&](std::ostream &os) { k.exp_s(os, *o); });
        std::string s2 = to_file_bytes([&](FILE *f) { k.exp_f(f, *o); });
        { static volatile int sink2 = 0; uint64_t h = fnv1a(s1.data(), s1.size()) ^ fnv1a(s2.data(), s2.size()); if (h & 1) sink2 += 1; else sink2 += 2; }
        { std::istringstream is(s1, std::ios::binary); HP im = k.imp_s(is, *o); std::string e = k.cmp(*o, *im); if (!e.empty() && e.rfind("real:", 0) != 0) out.viol("memory:io-roundtrip:" + k.name, J().s("field", e)); }
        { FILE *f = fmemopen((void *) s2.data(), s2.size(), "rb"); HP im = k.imp_f(f, *o); fclose(f); std::string e = k.cmp(*o, *im); if (!e.empty() && e.rfind("real:", 0) != 0) out.viol("memory:io-roundtrip:" + k.name, J().s("field", e)); }
        out.evaluations += 2;
        out.cell("io:" + k.name);
        // write-side faults: the destination is already in an error state, or runs into one (a file that could not be opened, a
        // full device, a stream with failbit set). Nothing may leak or be touched out of bounds; what ends up in the stream is
        // not the library's business any more
        if (rep == 0) {
            VH_OP("io-write-fault:%s", k.name.c_str());
            { std::ofstream of("/nonexistent-directory/x.key", std::ios::binary); k.exp_s(of, *o); k.exp_s(of, *o); }
            { std::ostringstream os; os.setstate(std::ios::failbit); k.exp_s(os, *o); os.clear(); os.setstate(std::ios::badbit); k.exp_s(os, *o); }
            { FILE *f = fopen("/dev/full", "wb"); if (f) { setvbuf(f, nullptr, _IONBF, 0); k.exp_f(f, *o); k.exp_f(f, *o); k.exp_f(f, *o); fclose(f); } }
            { int pfd[2]; if (pipe(pfd) == 0) { close(pfd[0]); signal(SIGPIPE, SIG_IGN); FILE *f = fdopen(pfd[1], "wb"); if (f) { k.exp_f(f, *o); k.exp_f(f, *o); fclose(f); } else close(pfd[1]); } }
            out.evaluations += 4;
            out.cell("io-write-fault:" + k.name + ":unopened-ofstream,failed-ostringstream,/dev/full,closed-pipe");
        }
    }
}

// ownership of the payload: every element of an object array owns its own storage. Each element's whole payload is filled
// with its own pseudo-random stream, in index order, and read back afterwards (elements sharing or overlapping storage, or a
// payload shorter than its dimensions say, show up as a mismatch or a guard/sanitizer report). Opaque types have no walker.
struct Pay { uint32_t x; bool check, ok = true; uint64_t words = 0; Pay(uint32_t seed, bool check) : x(seed * 2654435761u + 12345u), check(check) {}
    inline void w(int32_t &v) { x = x * 1664525u + 1013904223u; words++; if (check) ok = ok && v == (int32_t) x; else v = (int32_t) x; } };
static int ctx_n, ctx_k, ctx_N, ctx_kpl, ctx_ks_rows;
template<class T> static void walk(T *, Pay &) {}
static void walk(IntPolynomial *o, Pay &p) { for (int j = 0; j < o->N; j++) p.w(o->coefs[j]); }
static void walk(TorusPolynomial *o, Pay &p) { for (int j = 0; j < o->N; j++) p.w(o->coefsT[j]); }
static void walk(LweKey *o, Pay &p) { for (int j = 0; j < o->params->n; j++) p.w(o->key[j]); }
static void walk(LweSample *o, Pay &p) { for (int j = 0; j < ctx_n; j++) p.w(o->a[j]); p.w(o->b); }
static void walk(TLweKey *o, Pay &p) { for (int i = 0; i < o->params->k; i++) walk(&o->key[i], p); }
static void walk(TLweSample *o, Pay &p) { for (int i = 0; i <= o->k; i++) walk(&o->a[i], p); }
static void walk(TGswKey *o, Pay &p) { for (int i = 0; i < o->params->tlwe_params->k; i++) walk(&o->key[i], p); }
static void walk(TGswSample *o, Pay &p) { for (int r = 0; r < ctx_kpl; r++) walk(&o->all_sample[r], p); }
static void walk(LweKeySwitchKey *o, Pay &p) { for (int r = 0; r < o->n * o->t * o->base; r++) { LweSample *sm = &o->ks0_raw[r]; for (int j = 0; j < o->out_params->n; j++) p.w(sm->a[j]); p.w(sm->b); } }
static void walk(LweBootstrappingKey *o, Pay &p) { for (int i = 0; i < o->in_out_params->n; i++) walk(&o->bk[i], p); walk(o->ks, p); }
template<class T> static void ownership(T *arr, int count, const char *type, const char *how) {
    for (int e = 0; e < count; e++) { Pay f(e + 1, false); walk(arr + e, f); }
    uint64_t words = 0; bool ok = true;
    for (int e = 0; e < count; e++) { Pay c(e + 1, true); walk(arr + e, c); ok = ok && c.ok; words += c.words; }
    if (!words) return;
    out.evaluations++;
    if (!ok) out.viol(std::string("lifecycle:array-elements-share-storage:") + type, J().s("type", type).s("allocated_by", how).i("elements", count).u("payload_words", words));
}

// every allocator / constructor / destructor / deallocator family of the public API, single objects and arrays, in the four
// documented pairings: new/delete, new_array/delete_array, alloc+init/destroy+free, alloc_array+init_array/destroy_array+free_array
#define SWEEP(T, ...) do { \
        VH_OP("allocators:" #T); \
        { T *o = new_##T(__VA_ARGS__); delete_##T(o); } \
        { T *o = new_##T##_array(3, __VA_ARGS__); ownership(o, 3, #T, "new_" #T "_array"); delete_##T##_array(3, o); } \
        { T *o = alloc_##T(); init_##T(o, __VA_ARGS__); ownership(o, 1, #T, "alloc+init"); destroy_##T(o); free_##T(o); } \
        { T *o = alloc_##T##_array(2); init_##T##_array(2, o, __VA_ARGS__); ownership(o, 2, #T, "alloc_array+init_array"); destroy_##T##_array(2, o); free_##T##_array(2, o); } \
        { T *o = alloc_##T##_array(1); init_##T(o, __VA_ARGS__); destroy_##T(o); free_##T##_array(1, o); } \
        out.evaluations += 5; out.cell("allocators:" #T); } while (0)

static void allocator_sweep(int reps) {
    for (int rep = 0; rep < reps; rep++) {
        int n = rep == 0 ? 1 : 1 + (int) rng.below(40), k = 1 + (int) rng.below(2), l = 1 + (int) rng.below(3), Bgbit = 2 + (int) rng.below(8), t = 1 + (int) rng.below(3), bb = 1 + (int) rng.below(2);
        LweParams *lp = new_LweParams(n, 1e-5, 0.1);
        TLweParams *tp = new_TLweParams(1024, k, 1e-9, 0.1);
        TGswParams *gp = new_TGswParams(l, Bgbit, tp);
        ctx_n = n; ctx_k = k; ctx_N = 1024; ctx_kpl = (k + 1) * l;
        SWEEP(LweParams, n, 1e-5, 0.1);
        SWEEP(TLweParams, 1024, k, 1e-9, 0.1);
        SWEEP(TGswParams, l, Bgbit, tp);
        SWEEP(LweKey, lp); SWEEP(LweSample, lp);
        SWEEP(TLweKey, tp); SWEEP(TLweSample, tp); SWEEP(TLweSampleFFT, tp);
        SWEEP(TGswKey, gp); SWEEP(TGswSample, gp); SWEEP(TGswSampleFFT, gp);
        SWEEP(IntPolynomial, 1024); SWEEP(TorusPolynomial, 1024); SWEEP(LagrangeHalfCPolynomial, 1024);
        SWEEP(IntPolynomial, 1 + (int) rng.below(64)); SWEEP(TorusPolynomial, 1 + (int) rng.below(64));
        SWEEP(LweKeySwitchKey, 1 + (int) rng.below(20), t, bb, lp);
        SWEEP(LweBootstrappingKey, t, bb, lp, gp);
        { LweBootstrappingKey *bk = new_LweBootstrappingKey(t, bb, lp, gp);
          for (int i = 0; i < n; i++) for (int r = 0; r < gp->kpl; r++) for (int q = 0; q <= k; q++) for (int j = 0; j < 1024; j++) bk->bk[i].all_sample[r].a[q].coefsT[j] = rng.i32();
          for (int r = 0; r < 1024 * k * t * (1 << bb); r++) { for (int j = 0; j < n; j++) bk->ks->ks0_raw[r].a[j] = rng.i32(); bk->ks->ks0_raw[r].b = rng.i32(); bk->ks->ks0_raw[r].current_variance = 0; }
          SWEEP(LweBootstrappingKeyFFT, bk);
          delete_LweBootstrappingKey(bk); }
        delete_TGswParams(gp); delete_TLweParams(tp); delete_LweParams(lp);
    }
    // gate-API allocation functions
    { TFheGateBootstrappingParameterSet *p = new_default_gate_bootstrapping_parameters(80); LweSample *c = new_gate_bootstrapping_ciphertext(p), *a = new_gate_bootstrapping_ciphertext_array(5, p);
      delete_gate_bootstrapping_ciphertext_array(5, a); delete_gate_bootstrapping_ciphertext(c); delete_gate_bootstrapping_parameters(p); out.evaluations += 3; out.cell("allocators:gate-api"); }
    out.sample(J().s("mode", "allocator families: new/delete, new_array/delete_array, alloc+init/destroy+free, array variants, mixed").i("reps", reps).i("types", 17).s("ownership", "array elements filled with their own stream in index order and read back (10 types with a visible payload)"));
}

// thread create/exit histories: per-thread FFT state must be released when the thread exits
static void thread_histories(int count, int burst) {
    PSet *ps = new PSet(8, 1024, 1, 2, 8, 8, 2, ldexp(1., -20), ldexp(1., -30));   // decryptable: (t,basebit) = (8,2)
    TFheGateBootstrappingSecretKeySet *sk = new_random_gate_bootstrapping_secret_keyset(ps->gb);
    LweSample *in = new_gate_bootstrapping_ciphertext_array(2, ps->gb);
    bootsSymEncrypt(in, 1, sk); bootsSymEncrypt(in + 1, 0, sk);
    auto body = [&](int id) {
        const int N = 1024;
        IntPolynomial *a = new_IntPolynomial(N); TorusPolynomial *b = new_TorusPolynomial(N), *c = new_TorusPolynomial(N);
        for (int j = 0; j < N; j++) { a->coefs[j] = (j * 7 + id) % 5 - 2; b->coefsT[j] = (int32_t) (j * 2654435761u + id); }
        torusPolynomialMultFFT(c, a, b);
        if (id % 2) { LweSample *r = new_gate_bootstrapping_ciphertext(ps->gb); bootsNAND(r, in, in + 1, &sk->cloud); delete_gate_bootstrapping_ciphertext(r); }
        if (id % 3 == 0) { LagrangeHalfCPolynomial *l = new_LagrangeHalfCPolynomial(N); IntPolynomial_ifft(l, a); delete_LagrangeHalfCPolynomial(l); }
        delete_TorusPolynomial(c); delete_TorusPolynomial(b); delete_IntPolynomial(a);
    };
    VH_OP("threads:sequence");
    for (int i = 0; i < count; i++) { std::thread t(body, i); t.join(); out.evaluations++; }
    VH_OP("threads:bursts");
    for (int i = 0; i < count; i += burst) { std::vector<std::thread> th; for (int j = 0; j < burst; j++) th.emplace_back(body, i + j); for (auto &t: th) t.join(); out.evaluations += burst; }
    // single-purpose threads: a thread whose whole life is ONE kind of FFT-related action on objects prepared by the main thread
    // (a direct transform only, an inverse transform only, Lagrange arithmetic only, a conversion only, allocation only, ...).
    // Whatever per-thread state that one action created must be released when the thread exits (leak checkers), and the
    // result must be what the main thread gets.
    {
        VH_OP("threads:single-purpose");
        const int N = 1024; const TGswParams *tg = ps->gb->tgsw_params; const TLweParams *tl = tg->tlwe_params;
        IntPolynomial *ia = new_IntPolynomial(N); TorusPolynomial *tb = new_TorusPolynomial(N), *ref = new_TorusPolynomial(N);
        for (int j = 0; j < N; j++) { ia->coefs[j] = (j * 5) % 7 - 3; tb->coefsT[j] = (int32_t) (j * 2246822519u + 17); }
        LagrangeHalfCPolynomial *la = new_LagrangeHalfCPolynomial(N), *lb = new_LagrangeHalfCPolynomial(N), *lc = new_LagrangeHalfCPolynomial(N);
        IntPolynomial_ifft(la, ia); TorusPolynomial_ifft(lb, tb); LagrangeHalfCPolynomialMul(lc, la, lb); TorusPolynomial_fft(ref, lc);
        TLweSample *ts = new_TLweSample(tl); for (int i = 0; i <= tl->k; i++) for (int j = 0; j < N; j++) ts->a[i].coefsT[j] = (int32_t) (j * 40503u + i); ts->current_variance = 0;
        TLweSampleFFT *tf = new_TLweSampleFFT(tl); tLweToFFTConvert(tf, ts, tl);
        TGswSample *gs = new_TGswSample(tg); tGswClear(gs, tg); tGswAddH(gs, tg);
        TGswSampleFFT *gf = new_TGswSampleFFT(tg); tGswToFFTConvert(gf, gs, tg);
        std::atomic<int> bad{0};
        auto one = [&](int kind) {
            switch (kind) {
                case 0: { TorusPolynomial *r = new_TorusPolynomial(N); TorusPolynomial_fft(r, lc); if (memcmp(r->coefsT, ref->coefsT, 4 * N)) bad++; delete_TorusPolynomial(r); break; }
                case 1: { LagrangeHalfCPolynomial *l = new_LagrangeHalfCPolynomial(N); IntPolynomial_ifft(l, ia); delete_LagrangeHalfCPolynomial(l); break; }
                case 2: { LagrangeHalfCPolynomial *l = new_LagrangeHalfCPolynomial(N); TorusPolynomial_ifft(l, tb); delete_LagrangeHalfCPolynomial(l); break; }
                case 3: { LagrangeHalfCPolynomial *l = new_LagrangeHalfCPolynomial(N); LagrangeHalfCPolynomialMul(l, la, lb); LagrangeHalfCPolynomialAddTo(l, la); LagrangeHalfCPolynomialClear(l); delete_LagrangeHalfCPolynomial(l); break; }
                case 4: { LagrangeHalfCPolynomial *l = new_LagrangeHalfCPolynomial_array(3, N); delete_LagrangeHalfCPolynomial_array(3, l); TGswSampleFFT *g = new_TGswSampleFFT(tg); delete_TGswSampleFFT(g); break; }
                case 5: { TLweSample *r = new_TLweSample(tl); tLweFromFFTConvert(r, tf, tl); for (int i = 0; i <= tl->k; i++) for (int j = 0; j < N; j++) { int32_t d = r->a[i].coefsT[j] - ts->a[i].coefsT[j]; if (d > 1 || d < -1) { bad++; i = tl->k + 1; break; } } delete_TLweSample(r); break; }
                case 6: { TGswSample *r = new_TGswSample(tg); tGswFromFFTConvert(r, gf, tg); delete_TGswSample(r); break; }
                case 7: { TLweSampleFFT *r = new_TLweSampleFFT(tl); tLweToFFTConvert(r, ts, tl); delete_TLweSampleFFT(r); break; }
                case 8: { LweSample *r = new_gate_bootstrapping_ciphertext(ps->gb); bootsNOT(r, in, &sk->cloud); bootsCOPY(r, in + 1, &sk->cloud); delete_gate_bootstrapping_ciphertext(r); break; }
                case 9: { LweBootstrappingKeyFFT *f = new_LweBootstrappingKeyFFT(sk->cloud.bk); delete_LweBootstrappingKeyFFT(f); break; }
            }
        };
        for (int rep = 0; rep < 3; rep++) for (int kind = 0; kind < 10; kind++) { std::thread t(one, kind); t.join(); out.evaluations++; }
        if (bad) out.viol("memory:single-purpose-thread-wrong-result", J().i("count", bad.load()));
        delete_TGswSampleFFT(gf); delete_TGswSample(gs); delete_TLweSampleFFT(tf); delete_TLweSample(ts);
        delete_LagrangeHalfCPolynomial(lc); delete_LagrangeHalfCPolynomial(lb); delete_LagrangeHalfCPolynomial(la);
        delete_TorusPolynomial(ref); delete_TorusPolynomial(tb); delete_IntPolynomial(ia);
        out.cell("threads:single-purpose(10 kinds: direct-only, inverse-only, arithmetic-only, conversions, allocation-only, ...)", 30);
    }
    // objects that outlive the thread that built them: a key set generated (and its FFT image computed) by a thread that
    // exits; then enough threads come and go for the C library to recycle and finally unmap the dead thread's stack and
    // thread-local block; then the key is used from other threads and from the main thread. Any access to the dead
    // thread's per-thread FFT state is a use-after-free that shows here as SIGSEGV (unmapped) or wrong results.
    {
        VH_OP("threads:key-outlives-its-creator");
        TFheGateBootstrappingSecretKeySet *sk2 = nullptr;
        std::thread creator([&] { sk2 = new_random_gate_bootstrapping_secret_keyset(ps->gb); }); creator.join();
        for (int round = 0; round < 3; round++) { std::vector<std::thread> th; for (int j = 0; j < 12; j++) th.emplace_back([&] { volatile char pad[4096]; pad[0] = 1; usleep(1000); }); for (auto &t: th) t.join(); }
        LweSample *r = new_gate_bootstrapping_ciphertext(ps->gb); int wrong = 0;
        auto use = [&]() { for (int g = 0; g < 6; g++) { bootsSymEncrypt(in, 1, sk2); bootsSymEncrypt(in + 1, g & 1, sk2); LweSample *rr = new_gate_bootstrapping_ciphertext(ps->gb); bootsNAND(rr, in, in + 1, &sk2->cloud); if (bootsSymDecrypt(rr, sk2) != !(1 && (g & 1))) wrong++; delete_gate_bootstrapping_ciphertext(rr); } };
        VH_OP("threads:key-outlives-its-creator:use-on-main"); use();
        VH_OP("threads:key-outlives-its-creator:use-on-thread"); { std::thread u(use); u.join(); }
        out.evaluations += 12;
        if (wrong) out.viol("memory:key-unusable-after-its-creating-thread-exited", J().i("wrong_gate_outputs", wrong).i("of", 12));
        delete_gate_bootstrapping_ciphertext(r);
        std::thread destroyer([&] { delete_gate_bootstrapping_secret_keyset(sk2); }); destroyer.join();
        out.cell("threads:key-outlives-its-creator");
    }
    out.cell("threads:sequence", count); out.cell("threads:bursts", count);
    out.sample(J().s("mode", "thread create/exit histories").i("threads_in_sequence", count).i("burst_size", burst));
    delete_gate_bootstrapping_ciphertext_array(2, in); delete_gate_bootstrapping_secret_keyset(sk); delete ps;
}

// objects released while the process exits: from an exit handler the application registered before it first touched the
// library (so it runs after every handler registered later), and from the destructor of a global object (runs later still).
// Deleting through the API is valid at any time; the objects' parameters are owned by the library (default sets, imports).
struct ExitTime { TFheGateBootstrappingParameterSet *params = nullptr; TFheGateBootstrappingSecretKeySet *sk = nullptr; TFheGateBootstrappingCloudKeySet *imported = nullptr;
                  LweSample *ct = nullptr; LweKey *imported_key = nullptr; bool armed = false; };
static ExitTime exit_a, exit_b;
static void release_exit_time(ExitTime &e, const char *when) {
    if (!e.armed) return;
    VH_OP("exit-time:%s:delete ciphertexts", when); if (e.ct) delete_gate_bootstrapping_ciphertext_array(3, e.ct);
    VH_OP("exit-time:%s:delete imported cloud key set", when); if (e.imported) delete_gate_bootstrapping_cloud_keyset(e.imported);
    VH_OP("exit-time:%s:delete imported LWE key", when); if (e.imported_key) delete_LweKey(e.imported_key);
    VH_OP("exit-time:%s:delete secret key set", when); if (e.sk) delete_gate_bootstrapping_secret_keyset(e.sk);
    VH_OP("exit-time:%s:delete parameters", when); if (e.params) delete_gate_bootstrapping_parameters(e.params);
    VH_OP("exit-time:%s:done", when);
    out.stat(J().s("kind", "exit-time").s("released_from", when));
    e.armed = false;
}
static void early_registered_handler() { release_exit_time(exit_a, "exit-handler-registered-before-first-library-call"); }
struct GlobalHolder { ~GlobalHolder() { release_exit_time(exit_b, "destructor-of-a-global-object"); } };
static GlobalHolder global_holder;
static void fill_exit_time(ExitTime &e, int lambda) {
    e.params = new_default_gate_bootstrapping_parameters(lambda);                 // inner parameter objects owned by the library
    e.sk = new_random_gate_bootstrapping_secret_keyset(e.params);
    e.ct = new_gate_bootstrapping_ciphertext_array(3, e.params);
    bootsSymEncrypt(e.ct, 1, e.sk); bootsSymEncrypt(e.ct + 1, 0, e.sk);
    std::string bytes = to_stream_bytes([&](std::ostream &o) { export_tfheGateBootstrappingCloudKeySet_toStream(o, &e.sk->cloud); });
    { std::istringstream is(bytes); e.imported = new_tfheGateBootstrappingCloudKeySet_fromStream(is); }      // parameters created by the importer
    { std::string kb = to_stream_bytes([&](std::ostream &o) { export_lweKey_toStream(o, e.sk->lwe_key); }); std::istringstream is(kb); e.imported_key = new_lweKey_fromStream(is); }
    bootsNAND(e.ct + 2, e.ct, e.ct + 1, e.imported);
    out.evaluations++;
    if (bootsSymDecrypt(e.ct + 2, e.sk) != 1) out.viol("memory:exit-time:wrong-gate-output", J().i("lambda", lambda));
    e.armed = true;
}

int main(int argc, char **argv) {
    Args args(argc, argv);
    if (args.s("mode", "") == "exit-time") atexit(early_registered_handler);      // before anything else happens
    out.open(args.s("out", "-"));
    install_crash_handler();
    uint64_t seed = args.i("seed", 1);
    rng.reseed(seed * 1000003ull + args.i("n", 0) * 7 + args.i("order", 0));
    seed_library(seed + args.i("n", 0));
    std::string mode = args.s("mode", "lifecycle");
    if (mode == "lifecycle" && args.i("prelude", 0)) {      // process history: a full lifecycle under another configuration first
        lifecycle(args.i("n", 3) == 2 ? 5 : 2, args.i("k", 1) == 1 ? 2 : 1, args.i("l", 2) == 2 ? 3 : 2, args.i("Bgbit", 10) == 8 ? 6 : 8, args.i("t", 8) == 3 ? 4 : 3, args.i("basebit", 2) == 3 ? 2 : 3, 1, 0);
        out.cell("history:lifecycle-under-another-configuration-first");
    }
    if (mode == "lifecycle") lifecycle(args.i("n", 3), args.i("k", 1), args.i("l", 2), args.i("Bgbit", 10), args.i("t", 8), args.i("basebit", 2), args.i("order", 0), args.i("heavyio", 1));
    else if (mode == "iokinds") iokinds_pass(args.i("reps", 4));
    else if (mode == "allocators") allocator_sweep(args.i("reps", 3));
    else if (mode == "threads") thread_histories(args.i("count", 50), args.i("burst", 10));
    else if (mode == "exit-time") {
        fill_exit_time(exit_a, 80); fill_exit_time(exit_b, 128);
        out.cell("exit-time:released-from-early-registered-exit-handler"); out.cell("exit-time:released-from-global-destructor");
        out.sample(J().s("mode", "exit-time").s("objects", "default parameter sets, secret key sets, imported cloud key set and LWE key, ciphertext arrays"));
    }
    out.finish();
    // give the library the chance to release its garbage-collected parameters? no API is public for that: they stay reachable
    return 0;
}
