// C01: every homomorphic gate computes its Boolean function on every admissible input:
//      fresh, bootstrapped, CONSTANT, and phases pushed exactly to +-1/32 from +-1/8 with every sign combination.
#include "gates.hpp"
#include <sstream>
VH_MAIN_GLOBALS
using namespace vh;

static Rng rng;
static const int64_t E32 = 1ll << 27;   // 1/32 of the torus in units of 2^-32

// program start-up: the library may be used from the constructor of a namespace-scope object of the application, i.e. before
// main() and, in a statically linked program whose own objects come first on the link line (as the drivers are linked), before
// the dynamic initialisers of the library's translation units have run. With VH_PREMAIN set, this object generates a small
// key set and evaluates every gate on every input tuple during static initialisation; main() reports what it saw.
struct PreMain {
    int ran = 0, wrong = 0, evals = 0; char first_wrong[48]; int fa = 0, fb = 0, fc = 0;
    PreMain() {
        first_wrong[0] = 0;
        if (!getenv("VH_PREMAIN")) return;
        ran = 1;
        uint32_t sd[2] = {20260928u, 7u}; tfhe_random_generator_setSeed(sd, 2);
        PSet ps(12, 1024, 1, 3, 7, 5, 3, ldexp(1., -20), ldexp(1., -30));
        TFheGateBootstrappingSecretKeySet *sk = new_random_gate_bootstrapping_secret_keyset(ps.gb);
        LweSample *x = new_gate_bootstrapping_ciphertext_array(4, ps.gb);
        // (every other gate with a cloud key that went through export and import, also before main)
        std::ostringstream os; export_tfheGateBootstrappingCloudKeySet_toStream(os, &sk->cloud);
        std::istringstream is(os.str()); TFheGateBootstrappingCloudKeySet *imported = new_tfheGateBootstrappingCloudKeySet_fromStream(is);
        for (int g = 0; g < G_COUNT; g++) for (int v = 0; v < 8; v++) {
            if (GATES[g].arity < 3 && (v & 4)) continue;
            if (GATES[g].arity < 2 && (v & 2)) continue;
            for (int i = 0; i < 3; i++) bootsSymEncrypt(x + i, (v >> i) & 1, sk);
            gate_eval(g, x + 3, x, x + 1, x + 2, v & 1, (g & 1) ? imported : &sk->cloud);
            evals++;
            if (bootsSymDecrypt(x + 3, sk) != gate_truth(g, v & 1, (v >> 1) & 1, (v >> 2) & 1)) { if (!wrong) { snprintf(first_wrong, sizeof first_wrong, "%s", GATES[g].name); fa = v & 1; fb = (v >> 1) & 1; fc = (v >> 2) & 1; } wrong++; }
        }
        delete_gate_bootstrapping_cloud_keyset(imported);
        delete_gate_bootstrapping_ciphertext_array(4, x); delete_gate_bootstrapping_secret_keyset(sk);
    }
};
static PreMain premain;

enum InClass { FRESH, BOOT, CONST, INJ_P, INJ_M, INJ_P1, INJ_M1, INJ_U, NCLASS };
static const char *cls_name[] = {"fresh", "bootstrapped", "constant", "inj+1/32", "inj-1/32", "inj+(1/32-1ulp)", "inj-(1/32-1ulp)", "inj-uniform"};

struct World {
    TFheGateBootstrappingParameterSet *params; TFheGateBootstrappingSecretKeySet *sk; const TFheGateBootstrappingCloudKeySet *ck;
    std::string cfg; LweSample *one, *zero;
};

static void make_input(World &w, LweSample *dst, int bit, int cls) {
    switch (cls) {
        case FRESH: bootsSymEncrypt(dst, bit, w.sk); break;
        case BOOT: {  // output of a previous bootstrapped gate
            LweSample *t = new_gate_bootstrapping_ciphertext(w.params);
            bootsSymEncrypt(t, bit, w.sk);
            if (rng.coin()) bootsAND(dst, t, w.one, w.ck); else bootsOR(dst, t, w.zero, w.ck);
            delete_gate_bootstrapping_ciphertext(t);
            break;
        }
        case CONST: bootsCONSTANT(dst, bit, w.ck); break;
        default: {
            bootsSymEncrypt(dst, bit, w.sk);
            int64_t e = cls == INJ_P ? E32 : cls == INJ_M ? -E32 : cls == INJ_P1 ? E32 - 1 : cls == INJ_M1 ? -E32 + 1 : rng.range(-E32, E32);
            inject_phase(dst, bit, e, w.sk);
        }
    }
}

static void check_gate(World &w, int g, int va, int vb, int vc, int ca, int cb, int cc) {
    const GateSpec &s = GATES[g];
    LweSample *a = new_gate_bootstrapping_ciphertext(w.params), *b = new_gate_bootstrapping_ciphertext(w.params),
            *c = new_gate_bootstrapping_ciphertext(w.params), *r = new_gate_bootstrapping_ciphertext(w.params);
    make_input(w, a, va, ca);
    if (s.arity >= 2) make_input(w, b, vb, cb);
    if (s.arity >= 3) make_input(w, c, vc, cc);
    // the variance annotation of a ciphertext is advisory: whatever value it carries (zero, tiny, huge), the gate's result is the same
    { static const double vars[] = {0., 1e-300, 1e-12, 0.25, 1e6}; LweSample *ins[3] = {a, b, c};
      for (int i = 0; i < s.arity; i++) if (rng.below(3) == 0) ins[i]->current_variance = vars[rng.below(5)]; }
    VH_OP("boots%s:%s:%s,%s,%s", s.name, w.cfg.c_str(), cls_name[ca], s.arity >= 2 ? cls_name[cb] : "-", s.arity >= 3 ? cls_name[cc] : "-");
    gate_eval(g, r, a, b, c, va, w.ck);
    int got = bootsSymDecrypt(r, w.sk);
    int want = gate_truth(g, va, vb, vc);
    out.evaluations++;
    if (got != want) {
        J d; d.s("gate", s.name).s("config", w.cfg).i("a", va).i("b", vb).i("c", vc).s("class_a", cls_name[ca]).s("class_b", cls_name[cb]).s("class_c", cls_name[cc])
                .i("decrypted", got).i("truth_table", want).d("phase_out", (double) (int32_t) sk_phase(r, w.sk) / 4294967296.0)
                .d("phase_a", (double) (int32_t) sk_phase(a, w.sk) / 4294967296.0);
        if (s.arity >= 2) d.d("phase_b", (double) (int32_t) sk_phase(b, w.sk) / 4294967296.0);
        if (s.arity == 2) { int p; int pred = predict_binary_gate(g, a, b, w.sk, &p); d.i("harness_predicted_bit_from_linear_combination", pred).i("predicted_p", p)
                    .s("diagnosis", pred == want ? "bootstrapping/keyswitch disagrees with the rounded phase of the correct combination" : "the gate's linear combination itself lands on the wrong side"); }
        out.viol(std::string("gate:wrong-output:") + s.name, d);
    }
    // exact relations of the non-bootstrapped gates
    if (g == G_NOT || g == G_COPY || g == G_CONSTANT) {
        U pr = sk_phase(r, w.sk);
        U exp_ph = g == G_NOT ? (U) 0 - sk_phase(a, w.sk) : g == G_COPY ? sk_phase(a, w.sk) : (va ? ONE_EIGHTH : (U) 0 - ONE_EIGHTH);
        out.evaluations++;
        if (pr != exp_ph) out.viol(std::string("gate:inexact:") + s.name, J().s("gate", s.name).s("config", w.cfg).u("phase_out", pr).u("expected", exp_ph));
    }
    char cell[192];
    snprintf(cell, sizeof cell, "%s:%s:%d%d%d:%s,%s,%s", w.cfg.c_str(), s.name, va, s.arity >= 2 ? vb : 0, s.arity >= 3 ? vc : 0, cls_name[ca], s.arity >= 2 ? cls_name[cb] : "-", s.arity >= 3 ? cls_name[cc] : "-");
    if (g >= G_NOT || (ca == CONST && (s.arity < 2 || cb == CONST) && (s.arity < 3 || cc == CONST))) out.tcell(cell); else out.cell(cell);
    if (out.nsamples < 6 && rng.below(60) == 0)
        out.sample(J().s("gate", s.name).s("config", w.cfg).i("a", va).i("b", vb).i("c", vc).s("classes", std::string(cls_name[ca]) + "," + cls_name[cb] + "," + cls_name[cc]).i("decrypted", got)
                           .d("phase_a", (double) (int32_t) sk_phase(a, w.sk) / 4294967296.0).d("phase_out", (double) (int32_t) sk_phase(r, w.sk) / 4294967296.0));
    delete_gate_bootstrapping_ciphertext(r); delete_gate_bootstrapping_ciphertext(c); delete_gate_bootstrapping_ciphertext(b); delete_gate_bootstrapping_ciphertext(a);
}

// structured masks: admissible inputs whose masks are correlated so that the linear combination formed inside the gate has the same
// multiple of 1/2N in every coefficient (-1/2N, +1/2N, 1/2, 1/2 - 1/2N, ... : every blind-rotation exponent equal to 2N-1, 1, N, N-1).
// Each input alone is an ordinary ciphertext (its phase is set with the secret key, exact or pushed to +-1/32); a rotation amount
// that is mishandled by one position per coefficient, harmless singly, adds up over the whole key here.
static void check_structured_masks(World &w) {
    const int n = w.params->in_out_params->n, N2 = 2 * w.params->tgsw_params->tlwe_params->N;
    const uint32_t width = (uint32_t) (4294967296.0 / N2);
    LweSample *x = new_gate_bootstrapping_ciphertext_array(4, w.params);
    const int targets[] = {N2 - 1, 1, N2 / 2, N2 / 2 - 1, N2 / 2 + 1, 2, N2 - 2, 0};
    for (int ti = 0; ti < 8; ti++) for (int g = 0; g <= G_MUX; g++) for (int v = 0; v < 8; v++) for (int e = 0; e < 2; e++) {
        if (GATES[g].arity < 3 && (v & 4)) continue;
        if (ti >= 2 && e != (ti & 1)) continue;       // the two targets next to 0 with and without phase errors, the others alternately
        int bits[3] = {v & 1, (v >> 1) & 1, (v >> 2) & 1};
        for (int i = 0; i < 3; i++) bootsSymEncrypt(x + i, bits[i], w.sk);
        // second (and third) operand: masks that are random multiples of the interval width; first operand: whatever makes
        // ca*A + cb*B equal to the target multiple in every coefficient (for MUX: a + b = target and -a + c = -target ... both structured)
        int ca = g == G_MUX ? 1 : GATES[g].ca, cb = g == G_MUX ? 1 : GATES[g].cb;
        for (int i = 0; i < n; i++) {
            uint32_t B = (uint32_t) rng.below(N2) * width; if (ca == 2 || ca == -2) B &= ~(2 * width - 1) | 0;   // keep (target - cb B) divisible by |ca| in units of width/2
            uint32_t T = (uint32_t) targets[ti] * width;
            uint32_t rest = T - (uint32_t) cb * B;                      // = ca * A
            uint32_t A = ca == 1 ? rest : ca == -1 ? 0u - rest : ca == 2 ? rest / 2 : (0u - rest) / 2;
            x[0].a[i] = (int32_t) A; x[1].a[i] = (int32_t) B; x[2].a[i] = g == G_MUX ? (int32_t) (A - T - T) : (int32_t) ((uint32_t) rng.below(N2) * width);
        }
        for (int i = 0; i < 3; i++) inject_phase(x + i, bits[i], e ? (rng.coin() ? 1 : -1) * (E32 - 1 - (int64_t) rng.below(1000)) : rng.range(-1000, 1000), w.sk);
        VH_OP("boots%s:%s:structured-masks:target=%d", GATES[g].name, w.cfg.c_str(), targets[ti]);
        gate_eval(g, x + 3, x, x + 1, x + 2, bits[0], w.ck);
        out.evaluations++;
        if (bootsSymDecrypt(x + 3, w.sk) != gate_truth(g, bits[0], bits[1], bits[2]))
            out.viol(std::string("gate:wrong-output:") + GATES[g].name, J().s("gate", GATES[g].name).s("config", w.cfg).i("a", bits[0]).i("b", bits[1]).i("c", bits[2]).s("class_a", "structured masks").i("every_exponent_of_the_combination", targets[ti]).s("phase_errors", e ? "+-1/32" : "none")
                    .d("phase_out", (double) (int32_t) sk_phase(x + 3, w.sk) / 4294967296.0));
    }
    char cell[128]; snprintf(cell, sizeof cell, "%s:structured-masks(all exponents equal: 2N-1,1,N,N-1,N+1,2,2N-2,0)", w.cfg.c_str()); out.cell(cell, 8 * 11);
    delete_gate_bootstrapping_ciphertext_array(4, x);
}

// chosen values of the rounded body of the gate's internal combination (the rotation amount of the test polynomial): the first
// operand is re-encrypted until konst/8 + ca*a.b + cb*b.b rounds to the wanted multiple of 1/2N (0, 1, N-1, N, N+1, 2N-1; one try
// in 2N succeeds, and a try costs an encryption only)
static void check_rounded_body_targets(World &w) {
    const int N2 = 2 * w.params->tgsw_params->tlwe_params->N;
    LweSample *x = new_gate_bootstrapping_ciphertext_array(4, w.params);
    const int targets[] = {0, 1, N2 / 2 - 1, N2 / 2, N2 / 2 + 1, N2 - 1};
    uint64_t done = 0;
    for (int g = 0; g < G_MUX; g++) for (int ti = 0; ti < 6; ti++) {
        int va = (int) rng.below(2), vb = (int) rng.below(2);
        bootsSymEncrypt(x + 1, vb, w.sk);
        bool found = false;
        for (int tries = 0; tries < 40 * N2 && !found; tries++) {
            bootsSymEncrypt(x, va, w.sk);
            U comb = (U) GATES[g].konst8 * (1u << 29) + (U) GATES[g].ca * (U) x[0].b + (U) GATES[g].cb * (U) x[1].b;
            found = (int) ref_modswitch(comb, N2) == targets[ti];
        }
        if (!found) continue;
        VH_OP("boots%s:%s:rounded-body=%d", GATES[g].name, w.cfg.c_str(), targets[ti]);
        gate_eval(g, x + 3, x, x + 1, x + 2, va, w.ck);
        out.evaluations++; done++;
        if (bootsSymDecrypt(x + 3, w.sk) != gate_truth(g, va, vb, 0))
            out.viol(std::string("gate:wrong-output:") + GATES[g].name, J().s("gate", GATES[g].name).s("config", w.cfg).i("a", va).i("b", vb).s("class_a", "fresh, chosen so that the combination's body rounds to a given value").i("rounded_body", targets[ti]));
    }
    char cell[128]; snprintf(cell, sizeof cell, "%s:rounded-body-of-the-combination-in{0,1,N-1,N,N+1,2N-1}", w.cfg.c_str()); out.cell(cell, done);
    delete_gate_bootstrapping_ciphertext_array(4, x);
}

// the same ciphertext object in two (or three) operand roles: gate(r, a, a), MUX(r, a, a, c), MUX(r, a, b, a), MUX(r, a, b, b),
// MUX(r, a, a, a). Operands are inputs only, so sharing one object between them is ordinary use.
static void check_shared_operands(World &w, int cls) {
    LweSample *a = new_gate_bootstrapping_ciphertext(w.params), *b = new_gate_bootstrapping_ciphertext(w.params), *r = new_gate_bootstrapping_ciphertext(w.params);
    for (int va = 0; va < 2; va++) {
        for (int g = 0; g < G_MUX; g++) {
            make_input(w, a, va, cls);
            VH_OP("boots%s(r,a,a):%s:%s", GATES[g].name, w.cfg.c_str(), cls_name[cls]);
            gate_eval(g, r, a, a, a, va, w.ck);
            out.evaluations++;
            if (bootsSymDecrypt(r, w.sk) != gate_truth(g, va, va, 0)) out.viol(std::string("gate:wrong-output:") + GATES[g].name, J().s("gate", GATES[g].name).s("config", w.cfg).i("a", va).s("operands", "the same object twice").s("class_a", cls_name[cls]));
        }
        for (int vb = 0; vb < 2; vb++) for (int shape = 0; shape < 4; shape++) {
            make_input(w, a, va, cls); make_input(w, b, vb, cls);
            const LweSample *x = a, *y = shape == 0 ? a : b, *z = shape == 0 ? b : shape == 1 ? a : shape == 2 ? b : a;
            if (shape == 3) { y = a; z = a; }
            int vx = va, vy = (y == a) ? va : vb, vz = (z == a) ? va : vb;
            static const char *sn[] = {"MUX(a,a,c)", "MUX(a,b,a)", "MUX(a,b,b)", "MUX(a,a,a)"};
            VH_OP("boots%s:%s:%s", sn[shape], w.cfg.c_str(), cls_name[cls]);
            bootsMUX(r, x, y, z, w.ck);
            out.evaluations++;
            if (bootsSymDecrypt(r, w.sk) != gate_truth(G_MUX, vx, vy, vz)) out.viol("gate:wrong-output:MUX", J().s("gate", "MUX").s("config", w.cfg).i("a", vx).i("b", vy).i("c", vz).s("operands", sn[shape]).s("class_a", cls_name[cls]));
        }
    }
    char cell[128]; snprintf(cell, sizeof cell, "%s:same-object-in-several-operand-roles:%s", w.cfg.c_str(), cls_name[cls]); out.cell(cell, 2 * G_MUX + 16);
    delete_gate_bootstrapping_ciphertext(r); delete_gate_bootstrapping_ciphertext(b); delete_gate_bootstrapping_ciphertext(a);
}

int main(int argc, char **argv) {
    Args args(argc, argv);
    out.open(args.s("out", "-"));
    install_crash_handler();
    if (premain.ran) {
        out.evaluations += premain.evals;
        if (premain.wrong) out.viol(std::string("gate:wrong-output:") + premain.first_wrong, J().s("gate", premain.first_wrong).s("history", "gates evaluated during static initialisation of the program (before main), statically linked, program objects first").i("wrong", premain.wrong).i("of", premain.evals).i("a", premain.fa).i("b", premain.fb).i("c", premain.fc));
        out.cell(std::string(flavor_name()) + "/" + backend_name() + ":all-gates-before-main(static initialisation)", premain.evals);
    }
    uint64_t seed = args.i("seed", 1);
    int lambda = args.i("lambda", 128);
    std::string level = args.s("level", "quick");   // lite | quick | full
    if (args.i("prelude", 0)) { rng.reseed(seed * 4241 + 3); seed_library(seed * 4243 + 5); history_other_parameter_set(rng); }
    rng.reseed(seed * 1000003ull + lambda);
    seed_library(seed * 77 + lambda);
    World w;
    w.params = default_params(lambda);
    VH_OP("keygen:lambda=%d", lambda);
    w.sk = new_random_gate_bootstrapping_secret_keyset(w.params);
    w.ck = &w.sk->cloud;
    { char b[64]; snprintf(b, sizeof b, "%s/%s/%dbit", flavor_name(), backend_name(), lambda <= 80 ? 80 : 128); w.cfg = b; }
    w.one = new_gate_bootstrapping_ciphertext(w.params); w.zero = new_gate_bootstrapping_ciphertext(w.params);
    bootsSymEncrypt(w.one, 1, w.sk); bootsSymEncrypt(w.zero, 0, w.sk);

    // class vectors for two-input gates
    std::vector<std::pair<int, int>> pairs;
    if (level == "lite") pairs = {{FRESH, FRESH}, {INJ_P, INJ_P}, {INJ_M, INJ_M}, {INJ_P, INJ_M}, {INJ_M, INJ_P}};
    else {
        pairs = {{FRESH, FRESH}, {BOOT, BOOT}, {CONST, FRESH}, {FRESH, CONST}, {CONST, CONST},
                 {INJ_P, INJ_P}, {INJ_M, INJ_M}, {INJ_P, INJ_M}, {INJ_M, INJ_P}, {INJ_P1, INJ_M1}, {INJ_U, INJ_U}};
        if (level == "full") { pairs.push_back({BOOT, INJ_M}); pairs.push_back({INJ_M1, INJ_M1}); pairs.push_back({INJ_P1, INJ_P1}); pairs.push_back({INJ_U, BOOT}); pairs.push_back({INJ_U, INJ_U}); }
    }
    for (int g = 0; g < G_MUX; g++)
        for (int va = 0; va < 2; va++) for (int vb = 0; vb < 2; vb++)
            for (auto &pr: pairs) check_gate(w, g, va, vb, 0, pr.first, pr.second, FRESH);
    // MUX: all 8 tuples x sign combinations
    std::vector<std::vector<int>> triples;
    if (level == "lite") triples = {{FRESH, FRESH, FRESH}, {INJ_P, INJ_P, INJ_P}, {INJ_M, INJ_M, INJ_M}};
    else {
        triples = {{FRESH, FRESH, FRESH}, {BOOT, BOOT, BOOT}, {CONST, FRESH, BOOT}};
        int inj[2] = {INJ_P, INJ_M};
        for (int i = 0; i < 8; i++) triples.push_back({inj[i & 1], inj[(i >> 1) & 1], inj[(i >> 2) & 1]});
        triples.push_back({INJ_U, INJ_U, INJ_U});
        if (level == "full") { triples.push_back({INJ_P1, INJ_M1, INJ_P1}); triples.push_back({CONST, CONST, CONST}); triples.push_back({INJ_U, BOOT, INJ_U}); }
    }
    for (int v = 0; v < 8; v++) for (auto &t: triples) check_gate(w, G_MUX, v & 1, (v >> 1) & 1, (v >> 2) & 1, t[0], t[1], t[2]);
    for (int cls: {FRESH, BOOT, CONST, INJ_P, INJ_M}) { if (level == "lite" && cls != FRESH && cls != INJ_M) continue; check_shared_operands(w, cls); }
    if (level != "lite" || lambda > 80) check_structured_masks(w);
    check_rounded_body_targets(w);
    // NOT / COPY / CONSTANT
    for (int va = 0; va < 2; va++) for (int cls = 0; cls < NCLASS; cls++) { check_gate(w, G_NOT, va, 0, 0, cls, FRESH, FRESH); check_gate(w, G_COPY, va, 0, 0, cls, FRESH, FRESH); }
    check_gate(w, G_CONSTANT, 0, 0, 0, CONST, FRESH, FRESH); check_gate(w, G_CONSTANT, 1, 0, 0, CONST, FRESH, FRESH);
    // CONSTANT accepts any non-zero int as true
    { LweSample *r = new_gate_bootstrapping_ciphertext(w.params); bootsCONSTANT(r, 7, w.ck); out.evaluations++; if (bootsSymDecrypt(r, w.sk) != 1) out.viol("gate:wrong-output:CONSTANT", J().i("value", 7)); delete_gate_bootstrapping_ciphertext(r); }

    delete_gate_bootstrapping_ciphertext(w.one); delete_gate_bootstrapping_ciphertext(w.zero);
    delete_gate_bootstrapping_secret_keyset(w.sk);
    delete_gate_bootstrapping_parameters(w.params);
    out.finish();
    return 0;
}
