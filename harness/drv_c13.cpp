// C13: modSwitchFromTorus32 / approxPhase / modSwitchToTorus32 round to nearest exactly; t32tod/dtot32 identities
#include "vh.hpp"
#include <thread>
#include <atomic>
#include <sched.h>
VH_MAIN_GLOBALS
using namespace vh;

static Rng rng;
static uint64_t n_ties = 0;

// exact oracle: r must lie in [0,M) and M*phase must be within half a unit of r (cyclically), ties either way
static inline bool check_phase(uint32_t phase, int32_t M) {
    int32_t r = modSwitchFromTorus32((Torus32) phase, M);
    bool ok = true;
    const char *why = "";
    if (r < 0 || r >= M) { ok = false; why = "out-of-range"; }
    else {
        // x = M*phase in units of 2^-32 ; distance to r*2^32, cyclic modulo M*2^32
        unsigned __int128 x = (unsigned __int128) phase * (unsigned __int128) (uint32_t) M;
        unsigned __int128 target = (unsigned __int128) (uint32_t) r << 32;
        unsigned __int128 mod = (unsigned __int128) (uint32_t) M << 32;
        unsigned __int128 d = x >= target ? x - target : target - x;
        if (d > mod - d) d = mod - d;
        if (d > ((unsigned __int128) 1 << 31)) { ok = false; why = "not-nearest"; }
        else if (d == ((unsigned __int128) 1 << 31)) n_ties++;
    }
    Torus32 ap = approxPhase((Torus32) phase, M);
    Torus32 enc = modSwitchToTorus32(r, M);
    if (ok && ap != enc) { ok = false; why = "approxPhase!=encode(modSwitch)"; }
    out.evaluations++;
    if (!ok) {
        char key[64]; snprintf(key, sizeof key, "rounding:%s", why);
        out.viol(key, J().u("phase", phase).i("M", M).i("modSwitchFromTorus32", r).i("approxPhase", ap).i("encode_r", enc).s("why", why));
    }
    return ok;
}

static void check_roundtrip_mu(int32_t M) {
    // every mu for M <= 2^15 ; sampled + edges above
    auto one = [&](int32_t mu) {
        Torus32 e = modSwitchToTorus32(mu, M);
        int32_t back = modSwitchFromTorus32(e, M);
        out.evaluations++;
        if (back != mu)
            out.viol("rounding:encode-decode", J().i("M", M).i("mu", mu).i("encoded", e).i("decoded", back));
        // the encoding is the floor of mu*2^32/M (within one unit: the library works on 63 bits)
        unsigned __int128 ex = ((unsigned __int128) (uint32_t) mu << 32) / (uint32_t) M;
        int64_t diff = (int64_t) (uint32_t) e - (int64_t) (uint64_t) ex;
        if (diff > 1 || diff < -1)
            out.viol("rounding:encode-value", J().i("M", M).i("mu", mu).i("encoded", e).u("exact_floor", (uint64_t) ex));
    };
    if (M <= 32768) for (int32_t mu = 0; mu < M; mu++) one(mu);
    else {
        int32_t e[] = {0, 1, 2, M / 2 - 1, M / 2, M / 2 + 1, M - 2, M - 1};
        for (int32_t mu: e) one(mu);
        for (int i = 0; i < 100000; i++) one((int32_t) rng.below(M));
    }
}

static void boundaries(int32_t M, bool many) {
    // phases around k*2^32/M and (k+1/2)*2^32/M
    std::vector<int64_t> ks = {0, 1, 2, M / 2 - 1, M / 2, M / 2 + 1, M - 2, M - 1, M};
    if (many) for (int i = 0; i < 24; i++) ks.push_back(rng.below(M));
    for (int64_t k: ks) {
        if (k < 0 || k > M) continue;
        for (int h = 0; h < 2; h++) {
            unsigned __int128 num = ((unsigned __int128) (2 * k + h)) << 31; // (k + h/2) * 2^32
            uint64_t c = (uint64_t) (num / (uint32_t) M);
            for (int d = -3; d <= 3; d++) check_phase((uint32_t) (c + d), M);
        }
    }
    for (uint32_t d = 0; d < 4; d++) { check_phase(0xFFFFFFFFu - d, M); check_phase(d, M); check_phase(0x80000000u + d, M); check_phase(0x7FFFFFFFu - d, M); }
}

// the same functions called with the message space written as a literal constant at the call site (what user code usually does):
// anything the public header does for compile-time constants (macros, inline fast paths) is part of the interface
static inline void judge_literal(uint32_t phase, int32_t M, int32_t r, Torus32 ap, Torus32 enc_r) {
    bool ok = r >= 0 && r < M; const char *why = "out-of-range";
    if (ok) { unsigned __int128 x = (unsigned __int128) phase * (uint32_t) M, tg = (unsigned __int128) (uint32_t) r << 32, md = (unsigned __int128) (uint32_t) M << 32, d = x >= tg ? x - tg : tg - x; if (d > md - d) d = md - d;
              if (d > ((unsigned __int128) 1 << 31)) { ok = false; why = "not-nearest"; } else if (ap != enc_r) { ok = false; why = "approxPhase!=encode(modSwitch)"; } }
    out.evaluations++;
    if (!ok) { char key[80]; snprintf(key, sizeof key, "rounding:%s", why); out.viol(key, J().u("phase", phase).i("M", M).i("modSwitchFromTorus32", r).i("approxPhase", ap).s("why", why).s("call_site", "message space is a literal constant")); }
}
#define LITERAL_M(MM) do { for (size_t q = 0; q < phases.size(); q++) { uint32_t ph = phases[q]; int32_t r = modSwitchFromTorus32((Torus32) ph, MM); judge_literal(ph, MM, r, approxPhase((Torus32) ph, MM), r >= 0 && r < (MM) ? modSwitchToTorus32(r, MM) : 0); } out.cell("literal-M:" #MM, phases.size()); } while (0)
static void literal_call_sites() {
    std::vector<uint32_t> phases = {0u, 1u, 2u, 0xFFFFFFFFu, 0xFFFFFFFEu, 0x80000000u, 0x7FFFFFFFu, 0x80000001u, 0xC0000000u, 0x40000000u, 0xFFFF0000u, 0xFFFFFC00u, 0xFFF00000u};
    for (int sh = 0; sh < 32; sh++) { phases.push_back(0u - (1u << sh)); phases.push_back((1u << sh) - 1u); phases.push_back(1u << sh); phases.push_back(0u - (1u << sh) - 1u); }
    for (int i = 0; i < 20000; i++) phases.push_back(rng.u32());
    for (int i = 0; i < 4000; i++) phases.push_back(0xFFFFFFFFu - (uint32_t) rng.below(1u << (8 + rng.below(23))));     // the top of the range, at every scale
    VH_OP("literal-constant call sites");
    LITERAL_M(2); LITERAL_M(4); LITERAL_M(8); LITERAL_M(16); LITERAL_M(32); LITERAL_M(64); LITERAL_M(128); LITERAL_M(256); LITERAL_M(512); LITERAL_M(1024); LITERAL_M(2048); LITERAL_M(4096);
    LITERAL_M(8192); LITERAL_M(16384); LITERAL_M(32768); LITERAL_M(65536); LITERAL_M(1 << 20); LITERAL_M(1 << 24); LITERAL_M(1 << 30);
    LITERAL_M(3); LITERAL_M(5); LITERAL_M(7); LITERAL_M(10); LITERAL_M(100); LITERAL_M(1000); LITERAL_M(12289); LITERAL_M(32767);
}

int main(int argc, char **argv) {
    Args args(argc, argv);
    out.open(args.s("out", "-"));
    install_crash_handler();
    uint64_t seed = args.i("seed", 1);
    int shard = args.i("shard", 0), nshards = args.i("nshards", 1);
    std::string mode = args.s("mode", "phases");
    rng.reseed(seed * 7919 + shard);
    char cell[96];

    if (mode == "phases") {
        // --log2count 32 => all 2^32 phases (exhaustive), else a stratified sample: one random phase per stratum
        int lg = args.i("log2count", 24);
        std::vector<int32_t> Ms = {2, 3, 4, 5, 7, 8, 16, 1000, 1024, 2048, 4096, 32768, 1 << 30};
        if (args.has("M")) Ms = {(int32_t) args.i("M")};
        uint64_t total = 1ull << lg, per = total / nshards, lo = per * shard, hi = shard == nshards - 1 ? total : lo + per;
        for (int32_t M: Ms) {
            VH_OP("modSwitchFromTorus32:M=%d", M);
            if (lg == 32) { for (uint64_t p = lo; p < hi; p++) check_phase((uint32_t) p, M); }
            else {
                uint64_t width = 1ull << (32 - lg);
                for (uint64_t s = lo; s < hi; s++) check_phase((uint32_t) (s * width + rng.below(width)), M);
            }
            snprintf(cell, sizeof cell, "phases:M=%d:%s", M, lg == 32 ? "all-2^32" : "stratified");
            out.cell(cell, hi - lo);
            if (shard == 0) { boundaries(M, true); check_roundtrip_mu(M); }
        }
        if (shard == 0 || shard == 1) literal_call_sites();
        out.sample(J().s("mode", "phases").i("log2count", lg).raw("M", jarr(Ms)).u("phase_lo", lo << (32 - lg)).u("phase_hi", (hi << (32 - lg)) - 1).u("exact_ties_seen", n_ties));
    } else if (mode == "allM") {
        // every M in [2, 2^15]: boundary phases + all mu
        int maxM = args.i("maxM", 32768);
        for (int32_t M = 2 + shard; M <= maxM; M += nshards) {
            VH_OP("modSwitchFromTorus32:M=%d", M);
            boundaries(M, (M % 16) == 0 || M < 64);
            check_roundtrip_mu(M);
            for (int i = 0; i < 64; i++) check_phase(rng.u32(), M);
            snprintf(cell, sizeof cell, "allM:M=%d", M); out.cell(cell);
        }
        // every power of two above 2^15 up to 2^30 (2^31 does not fit the int32 argument): boundaries, range ends, random phases
        if (shard == 0) for (int lgM = 16; lgM <= 30; lgM++) {
            int32_t M = (int32_t) 1 << lgM;
            VH_OP("modSwitchFromTorus32:M=2^%d", lgM);
            boundaries(M, true); check_roundtrip_mu(M);
            for (int i = 0; i < 200000; i++) check_phase(rng.u32(), M);
            snprintf(cell, sizeof cell, "allM:M=2^%d", lgM); out.cell(cell);
        }
        out.sample(J().s("mode", "allM: boundary phases (k, k+1/2)*2^32/M +-3, range ends, all mu").i("maxM", maxM).u("exact_ties_seen", n_ties));
    } else if (mode == "threads") {
        // the same scalar functions called at the same time from several threads, each with its own message space (a thread that
        // bootstraps with 2N while another decodes with 8): every result is judged by the exact oracle; the same binary runs
        // under ThreadSanitizer
        int T = args.i("threads", 6); uint64_t iters = (uint64_t) args.d("iters", 2e6);
        const int32_t Ms[] = {2048, 8, 3, 2, 1024, 1000, 16, 32767, 1 << 20, 5, 4096, 7};
        std::atomic<uint64_t> bad{0}, done{0}; std::atomic<int> ready{0};
        struct W { uint32_t phase; int32_t M, r; Torus32 ap, enc; int kind; }; std::vector<W> wit(T);
        std::vector<std::thread> th;
        for (int t = 0; t < T; t++) th.emplace_back([&, t] {
            Rng r(seed * 977 + t); const int32_t M = Ms[t % 12];
            ready++; while (ready.load() < T) sched_yield();
            for (uint64_t i = 0; i < iters; i++) {
                uint32_t ph = r.u32(); int32_t q = modSwitchFromTorus32((Torus32) ph, M); Torus32 ap = approxPhase((Torus32) ph, M);
                bool ok = q >= 0 && q < M;
                if (ok) { unsigned __int128 x = (unsigned __int128) ph * (uint32_t) M, tg = (unsigned __int128) (uint32_t) q << 32, md = (unsigned __int128) (uint32_t) M << 32, d = x >= tg ? x - tg : tg - x; if (d > md - d) d = md - d; ok = d <= ((unsigned __int128) 1 << 31); }
                Torus32 enc = ok ? modSwitchToTorus32(q, M) : 0;
                if (ok && (ap != enc || modSwitchFromTorus32(enc, M) != q)) ok = false;
                if (!ok) { if (bad++ == 0) wit[t] = {ph, M, q, ap, enc, 1}; }
            }
            done += iters; });
        for (auto &x: th) x.join();
        out.evaluations += done.load();
        if (bad.load()) for (int t = 0; t < T; t++) if (wit[t].kind) { out.viol("rounding:wrong-result-when-threads-use-different-message-spaces", J().u("phase", wit[t].phase).i("M", wit[t].M).i("modSwitchFromTorus32", wit[t].r).i("approxPhase", wit[t].ap).i("threads", T).u("wrong_results", bad.load())); break; }
        char c2[96]; snprintf(c2, sizeof c2, "threads:%d-threads-each-with-its-own-M", T); out.cell(c2, done.load());
        out.sample(J().s("mode", "threads").i("threads", T).u("calls_per_thread", iters));
    } else if (mode == "conv") {
        // dtot32(t32tod(x)) == x for all / stratified x ; dtot32(d+k) == dtot32(d)
        int lg = args.i("log2count", 24);
        uint64_t total = 1ull << lg, per = total / nshards, lo = per * shard, hi = shard == nshards - 1 ? total : lo + per;
        uint64_t width = 1ull << (32 - lg);
        VH_OP("dtot32/t32tod");
        for (uint64_t s = lo; s < hi; s++) {
            uint32_t x = (uint32_t) (lg == 32 ? s : s * width + rng.below(width));
            double d = t32tod((Torus32) x);
            Torus32 y = dtot32(d);
            out.evaluations++;
            if ((uint32_t) y != x) out.viol("conversion:identity", J().u("x", x).d("t32tod", d).i("dtot32", y));
            if (d < -0.5 || d >= 0.5) out.viol("conversion:range", J().u("x", x).d("t32tod", d));
            if ((s & 0xff) == 0) {
                int64_t k = rng.range(-(1 << 20), 1 << 20);
                Torus32 z = dtot32(d + (double) k);
                out.evaluations++;
                if (z != y) out.viol("conversion:periodic", J().u("x", x).d("d", d).i("k", k).i("dtot32_d", y).i("dtot32_d_plus_k", z));
            }
        }
        // periodicity far from the origin: reals j/2^f + k that are exact doubles (f fractional bits, |k| up to 2^(52-f))
        if (shard == 0) {
            struct FK { int f; double k; } fks[] = {{20, 2147483647.0}, {20, -2147483648.0}, {16, 2147483648.0}, {16, 4294967301.0}, {16, -8589934592.0}, {16, 34359738368.0},
                                                    {12, 1099511627776.0}, {12, -1099511627775.0}, {8, 17592186044416.0}, {4, 281474976710656.0}, {4, -281474976710655.0}, {1, 2251799813685248.0}};
            for (auto &fk: fks) for (int t = 0; t < 20000; t++) {
                uint32_t j = (uint32_t) rng.below(1ull << fk.f);
                double d = ldexp((double) j, -fk.f);
                Torus32 want = (Torus32) (j << (32 - fk.f)), got = dtot32(d + fk.k), base = dtot32(d);
                out.evaluations++;
                if (got != want || base != want) { out.viol("conversion:periodic-far", J().d("d", d).d("k", fk.k).i("fraction_bits", fk.f).i("dtot32_d_plus_k", got).i("dtot32_d", base).i("expected", want)); break; }
            }
            out.cell("conv:periodicity-far(|k| up to 2^51)");
        }
        snprintf(cell, sizeof cell, "conv:%s", lg == 32 ? "all-2^32" : "stratified"); out.cell(cell, hi - lo);
        out.cell("conv:periodicity");
        out.sample(J().s("mode", "conv").i("log2count", lg).u("lo", lo).u("hi", hi));
    }
    out.finish();
    return 0;
}
