// C11: naive / Karatsuba / monomial multiplications and coefficient-wise operations are exact in Z_{2^32}[X]/(X^N+1)
#include "vh.hpp"
#include <pthread.h>
#include <thread>
#include <atomic>
#include <sched.h>
VH_MAIN_GLOBALS
using namespace vh;

static Rng rng;

enum Cls { RANDOM, EXTREME, ZERO, ONES, ALTERNATE, SMALL, SPIKE, NCLS };
static const char *cls_name[] = {"random", "extreme", "zero", "ones", "alternate", "small", "spike"};

static void fill(int32_t *p, int N, int cls) {
    switch (cls) {
        case RANDOM: for (int i = 0; i < N; i++) p[i] = rng.i32(); break;
        case EXTREME: for (int i = 0; i < N; i++) { int r = rng.below(4); p[i] = r == 0 ? INT32_MIN : r == 1 ? INT32_MAX : r == 2 ? -1 : INT32_MIN + 1; } break;
        case ZERO: for (int i = 0; i < N; i++) p[i] = 0; break;
        case ONES: for (int i = 0; i < N; i++) p[i] = 1; break;
        case ALTERNATE: for (int i = 0; i < N; i++) p[i] = (i & 1) ? INT32_MIN : INT32_MAX; break;
        case SMALL: for (int i = 0; i < N; i++) p[i] = (int32_t) rng.range(-2, 2); break;
        case SPIKE: for (int i = 0; i < N; i++) p[i] = 0; p[rng.below(N)] = rng.coin() ? INT32_MIN : rng.i32(); break;
    }
}

static std::string hex8(const std::vector<U> &v, int at) {
    char b[64]; snprintf(b, sizeof b, "idx=%d val=0x%08x", at, v[at]); return b;
}

static bool cmp(const char *fn, int N, const char *c1, const char *c2, const int32_t *got, const std::vector<U> &want, const std::string &extra = "") {
    out.evaluations++;
    if (out.nsamples < 8 && rng.below(400) == 0)
        out.sample(J().s("fn", fn).i("N", N).s("class_a", c1).s("class_b", c2).s("extra", extra).u("result_coef0", (U) got[0]).u("reference_coef0", want[0]));
    for (int i = 0; i < N; i++)
        if ((U) got[i] != want[i]) {
            out.viol(std::string("inexact:") + fn,
                     J().s("fn", fn).i("N", N).s("class_a", c1).s("class_b", c2).i("index", i)
                             .u("got", (U) got[i]).u("want", want[i]).s("extra", extra));
            return false;
        }
    return true;
}

struct TP { TorusPolynomial *p; TP(int N) { p = new_TorusPolynomial(N); } ~TP() { delete_TorusPolynomial(p); } int32_t *c() { return p->coefsT; } };
struct IP { IntPolynomial *p; IP(int N) { p = new_IntPolynomial(N); } ~IP() { delete_IntPolynomial(p); } int32_t *c() { return p->coefs; } };

static void test_products(int N, int reps) {
    TP b(N), r(N), r0(N); IP a(N);
    std::vector<U> want, w2;
    for (int ca = 0; ca < NCLS; ca++)
        for (int cb = 0; cb < NCLS; cb++) {
            if (cb == SMALL) continue;
            for (int rep = 0; rep < reps; rep++) {
                fill(a.c(), N, ca); fill(b.c(), N, cb);
                ref_negacyclic(want, a.c(), b.c(), N);
                char cell[96];
                VH_OP("torusPolynomialMultNaive:N=%d", N);
                fill(r.c(), N, RANDOM);
                torusPolynomialMultNaive(r.p, a.p, b.p);
                cmp("torusPolynomialMultNaive", N, cls_name[ca], cls_name[cb], r.c(), want);
                VH_OP("torusPolynomialMultKaratsuba:N=%d", N);
                fill(r.c(), N, RANDOM);
                torusPolynomialMultKaratsuba(r.p, a.p, b.p);
                cmp("torusPolynomialMultKaratsuba", N, cls_name[ca], cls_name[cb], r.c(), want);
                // accumulate / subtract on a random start value
                fill(r0.c(), N, rep & 1 ? EXTREME : RANDOM);
                VH_OP("torusPolynomialAddMulRKaratsuba:N=%d", N);
                memcpy(r.c(), r0.c(), 4 * N);
                torusPolynomialAddMulRKaratsuba(r.p, a.p, b.p);
                w2.resize(N); for (int i = 0; i < N; i++) w2[i] = (U) r0.c()[i] + want[i];
                cmp("torusPolynomialAddMulRKaratsuba", N, cls_name[ca], cls_name[cb], r.c(), w2);
                VH_OP("torusPolynomialSubMulRKaratsuba:N=%d", N);
                memcpy(r.c(), r0.c(), 4 * N);
                torusPolynomialSubMulRKaratsuba(r.p, a.p, b.p);
                for (int i = 0; i < N; i++) w2[i] = (U) r0.c()[i] - want[i];
                cmp("torusPolynomialSubMulRKaratsuba", N, cls_name[ca], cls_name[cb], r.c(), w2);
                snprintf(cell, sizeof cell, "product:N=%d:%s*%s", N, cls_name[ca], cls_name[cb]);
                if (ca == ZERO || cb == ZERO) out.tcell(cell); else out.cell(cell);
            }
        }
}

// integer polynomials of every small weight w (sparse keys, monomial sums): a contiguous run of w non-zero coefficients at a
// random offset, and w non-zero coefficients on a random support; every weight, so that any sparse/dense switch-over is crossed
static void test_weights(int N, int maxw) {
    TP b(N), r(N), r0(N); IP a(N);
    std::vector<U> want, w2;
    for (int w = 1; w <= maxw && w <= N; w++) for (int variant = 0; variant < 3; variant++) {
        for (int i = 0; i < N; i++) a.c()[i] = 0;
        if (variant == 0) { int off = (int) rng.below(N - w + 1); for (int i = 0; i < w; i++) a.c()[off + i] = rng.coin() ? 1 : (int32_t) rng.range(-3, 3) | 1; }
        else if (variant == 1) { int off = (int) rng.below(N); for (int i = 0; i < w; i++) a.c()[(off + i) % N] = rng.i32() | 1; }    // run wrapping around the end
        else { int placed = 0; while (placed < w) { int i = (int) rng.below(N); if (!a.c()[i]) { a.c()[i] = rng.coin() ? 1 : -1; placed++; } } }
        fill(b.c(), N, w % 3 == 0 ? EXTREME : RANDOM);
        ref_negacyclic(want, a.c(), b.c(), N);
        char ex[48]; snprintf(ex, sizeof ex, "weight=%d variant=%d", w, variant);
        VH_OP("torusPolynomialMultKaratsuba:weight:N=%d", N);
        fill(r.c(), N, RANDOM); torusPolynomialMultKaratsuba(r.p, a.p, b.p); cmp("torusPolynomialMultKaratsuba", N, "weight-w", "-", r.c(), want, ex);
        fill(r.c(), N, RANDOM); torusPolynomialMultNaive(r.p, a.p, b.p); cmp("torusPolynomialMultNaive", N, "weight-w", "-", r.c(), want, ex);
        fill(r0.c(), N, RANDOM); w2.resize(N);
        memcpy(r.c(), r0.c(), 4 * N); torusPolynomialAddMulRKaratsuba(r.p, a.p, b.p); for (int i = 0; i < N; i++) w2[i] = (U) r0.c()[i] + want[i]; cmp("torusPolynomialAddMulRKaratsuba", N, "weight-w", "-", r.c(), w2, ex);
        memcpy(r.c(), r0.c(), 4 * N); torusPolynomialSubMulRKaratsuba(r.p, a.p, b.p); for (int i = 0; i < N; i++) w2[i] = (U) r0.c()[i] - want[i]; cmp("torusPolynomialSubMulRKaratsuba", N, "weight-w", "-", r.c(), w2, ex);
    }
    char cell[64]; snprintf(cell, sizeof cell, "weights:N=%d:1..%d", N, maxw < N ? maxw : N); out.cell(cell);
}

// every basis pair (X^i, c.X^j): bilinearity => full correctness of the product on the basis
static void test_basis(int N) {
    TP b(N), r(N); IP a(N);
    std::vector<U> want(N);
    U cs[3] = {1u, (U) INT32_MIN, rng.u32() | 1u};
    for (int i = 0; i < N; i++)
        for (int j = 0; j < N; j++) {
            U c = cs[(i + j) % 3];
            int32_t ai = ((i ^ j) & 1) ? -1 : 1;
            for (int t = 0; t < N; t++) { a.c()[t] = 0; b.c()[t] = 0; want[t] = 0; }
            a.c()[i] = ai; b.c()[j] = (int32_t) c;
            U v = (U) ai * c; int k = i + j;
            if (k < N) want[k] = v; else want[k - N] = (U) 0 - v;
            char ex[64]; snprintf(ex, sizeof ex, "basis i=%d j=%d", i, j);
            VH_OP("torusPolynomialMultNaive:basis:N=%d", N);
            torusPolynomialMultNaive(r.p, a.p, b.p);
            cmp("torusPolynomialMultNaive", N, "basis", "basis", r.c(), want, ex);
            VH_OP("torusPolynomialMultKaratsuba:basis:N=%d", N);
            torusPolynomialMultKaratsuba(r.p, a.p, b.p);
            cmp("torusPolynomialMultKaratsuba", N, "basis", "basis", r.c(), want, ex);
        }
    char cell[64]; snprintf(cell, sizeof cell, "basis-pairs:N=%d:exhaustive", N); out.cell(cell);
}

static void test_monomials(int N, bool all_a) {
    TP src(N), r(N), r2(N), r3(N); IP isrc(N), ir(N);
    std::vector<U> want, w2;
    int classes[] = {RANDOM, EXTREME, ALTERNATE, SPIKE};
    std::vector<int> as;
    if (all_a) for (int a = 0; a < 2 * N; a++) as.push_back(a);
    else {
        std::set<int> s = {0, 1, N - 1, N, N + 1, 2 * N - 1};
        for (int t = 0; t < 64; t++) s.insert((int) rng.below(2 * N));
        for (int a: s) if (a >= 0 && a < 2 * N) as.push_back(a);
    }
    for (int a: as) for (int pass = 0; pass < 2; pass++) {
        int cl = pass == 0 ? RANDOM : classes[1 + rng.below(3)];
        fill(src.c(), N, cl);
        memcpy(isrc.c(), src.c(), 4 * N);
        ref_mul_xai(want, a, src.c(), N);
        VH_OP("torusPolynomialMulByXai:N=%d", N);
        fill(r.c(), N, RANDOM);
        torusPolynomialMulByXai(r.p, a, src.p);
        char ex[32]; snprintf(ex, sizeof ex, "a=%d", a);
        cmp("torusPolynomialMulByXai", N, cls_name[cl], "-", r.c(), want, ex);
        w2.resize(N); for (int i = 0; i < N; i++) w2[i] = want[i] - (U) src.c()[i];
        VH_OP("torusPolynomialMulByXaiMinusOne:N=%d", N);
        fill(r.c(), N, RANDOM);
        torusPolynomialMulByXaiMinusOne(r.p, a, src.p);
        cmp("torusPolynomialMulByXaiMinusOne", N, cls_name[cl], "-", r.c(), w2, ex);
        VH_OP("intPolynomialMulByXaiMinusOne:N=%d", N);
        fill(ir.c(), N, RANDOM);
        intPolynomialMulByXaiMinusOne(ir.p, a, isrc.p);
        cmp("intPolynomialMulByXaiMinusOne", N, cls_name[cl], "-", ir.c(), w2, ex);
        // algebra: X^a * X^b = X^(a+b mod 2N) through the library itself
        int b = (int) rng.below(2 * N);
        VH_OP("torusPolynomialMulByXai:compose:N=%d", N);
        torusPolynomialMulByXai(r.p, a, src.p);
        torusPolynomialMulByXai(r2.p, b, r.p);
        torusPolynomialMulByXai(r3.p, (a + b) % (2 * N), src.p);
        std::vector<U> w3(N); for (int i = 0; i < N; i++) w3[i] = (U) r3.c()[i];
        cmp("torusPolynomialMulByXai.compose", N, cls_name[cl], "-", r2.c(), w3, ex);
    }
    // X^N = -1
    fill(src.c(), N, RANDOM);
    torusPolynomialMulByXai(r.p, N, src.p);
    want.resize(N); for (int i = 0; i < N; i++) want[i] = (U) 0 - (U) src.c()[i];
    cmp("torusPolynomialMulByXai.XN=-1", N, "random", "-", r.c(), want);
    char cell[64]; snprintf(cell, sizeof cell, "monomial:N=%d:%s", N, all_a ? "all-a" : "sampled-a"); out.cell(cell);
}

static void test_linear(int N, int reps) {
    TP a(N), b(N), r(N), r0(N); IP ia(N), ib(N), ir(N);
    std::vector<U> want(N);
    int32_t ps[] = {0, 1, -1, 2, INT32_MAX, INT32_MIN, 0, 0};
    for (int rep = 0; rep < reps; rep++) {
        int ca = rng.below(NCLS), cb = rng.below(NCLS);
        fill(a.c(), N, ca); fill(b.c(), N, cb);
        ps[6] = rng.i32(); ps[7] = (int32_t) rng.range(-32768, 32767);
        const char *A = cls_name[ca], *B = cls_name[cb];
#define WANT(expr) for (int i = 0; i < N; i++) { U x = (U) a.c()[i], y = (U) b.c()[i], z = (U) r0.c()[i]; (void) x; (void) y; (void) z; want[i] = (expr); }
        fill(r0.c(), N, RANDOM);
        VH_OP("torusPolynomialAdd:N=%d", N);
        fill(r.c(), N, RANDOM); torusPolynomialAdd(r.p, a.p, b.p); WANT(x + y); cmp("torusPolynomialAdd", N, A, B, r.c(), want);
        VH_OP("torusPolynomialSub:N=%d", N);
        fill(r.c(), N, RANDOM); torusPolynomialSub(r.p, a.p, b.p); WANT(x - y); cmp("torusPolynomialSub", N, A, B, r.c(), want);
        VH_OP("torusPolynomialAddTo:N=%d", N);
        memcpy(r.c(), r0.c(), 4 * N); torusPolynomialAddTo(r.p, b.p); WANT(z + y); cmp("torusPolynomialAddTo", N, A, B, r.c(), want);
        VH_OP("torusPolynomialSubTo:N=%d", N);
        memcpy(r.c(), r0.c(), 4 * N); torusPolynomialSubTo(r.p, b.p); WANT(z - y); cmp("torusPolynomialSubTo", N, A, B, r.c(), want);
        VH_OP("torusPolynomialAddTo:alias:N=%d", N);
        memcpy(r.c(), r0.c(), 4 * N); torusPolynomialAddTo(r.p, r.p); WANT(z + z); cmp("torusPolynomialAddTo.alias", N, A, B, r.c(), want);
        VH_OP("torusPolynomialSubTo:alias:N=%d", N);
        memcpy(r.c(), r0.c(), 4 * N); torusPolynomialSubTo(r.p, r.p); WANT(0u); cmp("torusPolynomialSubTo.alias", N, A, B, r.c(), want);
        for (int32_t p: ps) {
            U P = (U) p; char ex[32]; snprintf(ex, sizeof ex, "p=%d", p);
            VH_OP("torusPolynomialAddMulZ:N=%d", N);
            fill(r.c(), N, RANDOM); torusPolynomialAddMulZ(r.p, a.p, p, b.p); WANT(x + P * y); cmp("torusPolynomialAddMulZ", N, A, B, r.c(), want, ex);
            VH_OP("torusPolynomialSubMulZ:N=%d", N);
            fill(r.c(), N, RANDOM); torusPolynomialSubMulZ(r.p, a.p, p, b.p); WANT(x - P * y); cmp("torusPolynomialSubMulZ", N, A, B, r.c(), want, ex);
            VH_OP("torusPolynomialAddMulZTo:N=%d", N);
            memcpy(r.c(), r0.c(), 4 * N); torusPolynomialAddMulZTo(r.p, p, b.p); WANT(z + P * y); cmp("torusPolynomialAddMulZTo", N, A, B, r.c(), want, ex);
            VH_OP("torusPolynomialSubMulZTo:N=%d", N);
            memcpy(r.c(), r0.c(), 4 * N); torusPolynomialSubMulZTo(r.p, p, b.p); WANT(z - P * y); cmp("torusPolynomialSubMulZTo", N, A, B, r.c(), want, ex);
        }
        VH_OP("torusPolynomialClear:N=%d", N);
        memcpy(r.c(), r0.c(), 4 * N); torusPolynomialClear(r.p); WANT(0u); cmp("torusPolynomialClear", N, A, B, r.c(), want);
        VH_OP("torusPolynomialCopy:N=%d", N);
        fill(r.c(), N, RANDOM); torusPolynomialCopy(r.p, a.p); WANT(x); cmp("torusPolynomialCopy", N, A, B, r.c(), want);
        // integer polynomials
        memcpy(ia.c(), a.c(), 4 * N); memcpy(ib.c(), b.c(), 4 * N);
        VH_OP("intPolynomialCopy:N=%d", N);
        fill(ir.c(), N, RANDOM); intPolynomialCopy(ir.p, ia.p); WANT(x); cmp("intPolynomialCopy", N, A, B, ir.c(), want);
        VH_OP("intPolynomialAddTo:N=%d", N);
        memcpy(ir.c(), r0.c(), 4 * N); intPolynomialAddTo(ir.p, ib.p); WANT(z + y); cmp("intPolynomialAddTo", N, A, B, ir.c(), want);
        VH_OP("intPolynomialClear:N=%d", N);
        intPolynomialClear(ir.p); WANT(0u); cmp("intPolynomialClear", N, A, B, ir.c(), want);
        // inputs untouched by the pure functions
        char cell[96]; snprintf(cell, sizeof cell, "linear:N=%d:%s,%s", N, A, B); out.cell(cell);
    }
}

// operands shared between threads: the multiplications take their operands as const; T threads multiply the same two
// polynomials into private results at the same time. Every result must still be exact and the operands unchanged (the same
// binary runs under ThreadSanitizer, where any write to a shared operand is reported even if no result came out wrong).
static void test_shared(int N, int T, int iters) {
    static const char *fn[] = {"torusPolynomialMultNaive", "torusPolynomialMultKaratsuba", "torusPolynomialAddMulRKaratsuba", "torusPolynomialSubMulRKaratsuba", "torusPolynomialMulByXai", "torusPolynomialAddMulZ"};
    for (int cls: {RANDOM, EXTREME}) {
        TP b(N), r0(N); IP a(N);
        fill(a.c(), N, cls); fill(b.c(), N, RANDOM); fill(r0.c(), N, RANDOM);
        std::vector<U> prod; ref_negacyclic(prod, a.c(), b.c(), N);
        const int ai = (int) rng.below(2 * N); const int32_t pz = rng.i32();
        std::vector<std::vector<U>> want(6, std::vector<U>(N));
        std::vector<U> mono; ref_mul_xai(mono, ai, b.c(), N);
        for (int i = 0; i < N; i++) { want[0][i] = prod[i]; want[1][i] = prod[i]; want[2][i] = (U) r0.c()[i] + prod[i]; want[3][i] = (U) r0.c()[i] - prod[i]; want[4][i] = mono[i]; want[5][i] = (U) r0.c()[i] + (U) pz * (U) b.c()[i]; }
        uint64_t ha = fnv1a(a.c(), 4 * N), hb = fnv1a(b.c(), 4 * N);
        std::atomic<uint64_t> bad[6], runs[6]; for (int i = 0; i < 6; i++) { bad[i] = 0; runs[i] = 0; }
        std::atomic<int> ready{0};
        std::vector<std::thread> th;
        for (int t = 0; t < T; t++) th.emplace_back([&, t] {
            TP r(N);
            ready++; while (ready.load() < T) sched_yield();
            for (int it = 0; it < iters; it++) {
                int op = (it + t) % 6;
                if (op == 0 && N > 256 && it % 4) op = 1;     // the schoolbook product is slow
                VH_OP("shared-operands:%s:N=%d", fn[op], N);
                if (op >= 2 && op != 4) memcpy(r.c(), r0.c(), 4 * N);
                switch (op) {
                    case 0: torusPolynomialMultNaive(r.p, a.p, b.p); break;
                    case 1: torusPolynomialMultKaratsuba(r.p, a.p, b.p); break;
                    case 2: torusPolynomialAddMulRKaratsuba(r.p, a.p, b.p); break;
                    case 3: torusPolynomialSubMulRKaratsuba(r.p, a.p, b.p); break;
                    case 4: torusPolynomialMulByXai(r.p, ai, b.p); break;
                    case 5: torusPolynomialAddMulZ(r.p, r0.p, pz, b.p); break;
                }
                runs[op]++;
                if (memcmp(r.c(), want[op].data(), 4 * N)) bad[op]++;
            }
        });
        for (auto &t: th) t.join();
        for (int op = 0; op < 6; op++) { out.evaluations += runs[op];
            if (bad[op]) out.viol(std::string("inexact:") + fn[op] + ":operands-shared-between-threads", J().s("fn", fn[op]).i("N", N).i("threads", T).u("wrong_results", bad[op].load()).u("calls", runs[op].load()).s("class_a", cls_name[cls])); }
        out.evaluations++;
        if (fnv1a(a.c(), 4 * N) != ha || fnv1a(b.c(), 4 * N) != hb) out.viol("inexact:shared-operand-left-modified", J().i("N", N).i("threads", T).b("int_operand_changed", fnv1a(a.c(), 4 * N) != ha).b("torus_operand_changed", fnv1a(b.c(), 4 * N) != hb));
        char cell[96]; snprintf(cell, sizeof cell, "shared-operands:N=%d:T=%d:%s", N, T, cls_name[cls]); out.cell(cell, (uint64_t) T * iters);
    }
}

int main(int argc, char **argv) {
    Args args(argc, argv);
    out.open(args.s("out", "-"));
    install_crash_handler();
    uint64_t seed = args.i("seed", 1);
    int shard = args.i("shard", 0), nshards = args.i("nshards", 1);
    bool thorough = args.s("tier", "quick") == "thorough";
    int maxN = args.i("maxN", 2048);
    int basisN = args.i("basisN", thorough ? 64 : 16);
    rng.reseed(seed * 1000003 + shard);
    if (args.s("mode", "") == "smallstack") {
        // the calling context has little stack left (a thread created with a small stack, a fiber, a deep caller): the products
        // keep their scratch space on the heap, so a 32 KiB stack is plenty for every degree
        size_t kib = (size_t) args.i("stack_kib", 32);
        struct Ctx { int maxN; } ctx{maxN};
        pthread_attr_t at; pthread_attr_init(&at); pthread_attr_setstacksize(&at, kib * 1024);
        pthread_t th;
        auto body = [](void *v) -> void * { Ctx *c = (Ctx *) v;
            for (int N = 1; N <= c->maxN; N *= 2) { VH_OP("small-stack:products:N=%d", N); test_products(N, 1); test_linear(N, 2); if (N >= 8) test_weights(N, 6); test_monomials(N, false); }
            return nullptr; };
        if (pthread_create(&th, &at, body, &ctx)) { perror("pthread_create"); return 2; }
        pthread_join(th, nullptr); pthread_attr_destroy(&at);
        char cell[64]; snprintf(cell, sizeof cell, "small-stack:%zu-KiB-thread:all-degrees-up-to-%d", kib, maxN); out.cell(cell);
        out.sample(J().s("mode", "smallstack").u("stack_kib", kib).i("maxN", maxN));
        out.finish(); return 0;
    }
    if (args.s("mode", "") == "threads") {
        // several threads multiply at the same time, each in its own degree with its own operands (alternating between two degrees)
        int T = args.i("threads", 10), iters = args.i("iters", 200);
        const int Ns[] = {8, 1024, 16, 256, 64, 512, 4, 128, 32, 2048};
        std::atomic<uint64_t> bad{0}, calls{0}; std::atomic<int> ready{0}; std::vector<int> wit(T, 0);
        std::vector<std::thread> th;
        for (int t = 0; t < T; t++) th.emplace_back([&, t] {
            Rng r(seed * 3571 + t);
            ready++; while (ready.load() < T) sched_yield();
            for (int it = 0; it < iters; it++) {
                const int N = (it & 1) ? Ns[(t + 3) % 10] : Ns[t % 10]; if (N > maxN) continue;
                TP b(N), res(N), r0(N); IP a(N);
                for (int i = 0; i < N; i++) { a.c()[i] = (it % 3 == 0) ? r.i32() : (int32_t) r.range(-1024, 1024); b.c()[i] = r.i32(); r0.c()[i] = r.i32(); }
                std::vector<U> prod; ref_negacyclic(prod, a.c(), b.c(), N);
                int op = it % 3;
                memcpy(res.c(), r0.c(), 4 * N);
                if (op == 0) torusPolynomialMultKaratsuba(res.p, a.p, b.p); else if (op == 1) torusPolynomialAddMulRKaratsuba(res.p, a.p, b.p); else torusPolynomialSubMulRKaratsuba(res.p, a.p, b.p);
                bool ok = true; for (int i = 0; i < N && ok; i++) { U want = op == 0 ? prod[i] : op == 1 ? (U) r0.c()[i] + prod[i] : (U) r0.c()[i] - prod[i]; ok = (U) res.c()[i] == want; }
                calls++; if (!ok && bad++ == 0) wit[t] = N;
            }
        });
        for (auto &x: th) x.join();
        out.evaluations += calls.load();
        if (bad.load()) for (int t = 0; t < T; t++) if (wit[t]) { out.viol("inexact:Karatsuba:when-threads-use-different-degrees", J().i("N", wit[t]).i("threads", T).u("wrong_results", bad.load())); break; }
        char cell[96]; snprintf(cell, sizeof cell, "threads:%d-threads-each-with-its-own-degrees", T); out.cell(cell, calls.load());
        out.sample(J().s("mode", "threads").i("threads", T).i("products_per_thread", iters));
        out.finish(); return 0;
    }
    if (args.s("mode", "") == "shared") {
        for (int N: {8, 16, 64, 256, 1024}) test_shared(N, args.i("threads", 4), args.i("iters", 300) / (N >= 1024 ? 4 : 1));
        out.sample(J().s("mode", "shared").i("threads", args.i("threads", 4)).s("N", "8,16,64,256,1024"));
        out.finish(); return 0;
    }
    std::vector<std::function<void()>> items;
    for (int N = 1; N <= maxN; N *= 2) {
        int reps = thorough ? (N >= 1024 ? 2 : 6) : (N >= 1024 ? 1 : 2);
        if (!thorough && N == 2048) reps = 1;
        items.push_back([=] { test_products(N, reps); });
        items.push_back([=] { test_monomials(N, thorough || N <= 512); });
        items.push_back([=] { test_linear(N, thorough ? 40 : 8); });
        if (N <= basisN) items.push_back([=] { test_basis(N); });
        if (N >= 8) items.push_back([=] { test_weights(N, thorough ? 300 : 100); });
    }
    for (size_t i = 0; i < items.size(); i++)
        if ((int) (i % nshards) == shard) items[i]();
    // order of sizes: everything above visits the degrees in increasing order. Once more in decreasing order on the same thread,
    // then small degrees right after a large one (nothing a product leaves behind may reach a later product of another degree)
    if (shard < 2 || nshards == 1) {
        VH_OP("history:decreasing-degrees");
        for (int N = maxN < 1024 ? maxN : 1024; N >= 1; N /= 2) { test_products(N, 1); if (N >= 8) test_weights(N, 12); }
        for (int N: {1, 2, 4, 8, 16}) { test_products(shard ? 512 : 256, 1); test_products(N, 2); test_linear(N, 4); test_monomials(N, true); }
        out.cell("history:degrees-in-decreasing-order-and-small-after-large");
    }
    out.finish();
    return 0;
}
