// C19: default parameter selection. One forked child per lambda; the child's termination status and, when it
// returns, every field of the returned set are the observation. The oracle lives in checks/c19.py.
#include "vh.hpp"
#include "tfhe_garbage_collector.h"
#include <sys/wait.h>
#include <sstream>
#include <new>
VH_MAIN_GLOBALS
using namespace vh;

// failpoint: the k-th allocation made through operator new after arming throws std::bad_alloc (the caller catches it and asks
// again). Counted per process (the children are single-threaded); disarmed = plain malloc. Not in sanitizer builds.
#if !defined(__SANITIZE_ADDRESS__) && !defined(__SANITIZE_THREAD__) && !defined(VH_NO_HEAP_PHASE)
#define VH_FAILPOINT_NEW 1
static long fp_fail_at = -1, fp_count = 0;
static inline void *fp_alloc(size_t n) { if (fp_fail_at >= 0 && ++fp_count == fp_fail_at) throw std::bad_alloc(); void *p = malloc(n ? n : 1); if (!p) throw std::bad_alloc(); return p; }
void *operator new(size_t n) { return fp_alloc(n); }
void *operator new[](size_t n) { return fp_alloc(n); }
void operator delete(void *p) noexcept { free(p); }
void operator delete[](void *p) noexcept { free(p); }
void operator delete(void *p, size_t) noexcept { free(p); }
void operator delete[](void *p, size_t) noexcept { free(p); }
#endif

static std::string fields(const TFheGateBootstrappingParameterSet *p) {
    const LweParams *io = p->in_out_params; const TGswParams *g = p->tgsw_params; const TLweParams *t = g->tlwe_params;
    J j;
    j.i("ks_t", p->ks_t).i("ks_basebit", p->ks_basebit);
    j.i("n", io->n).d("lwe_alpha_min", io->alpha_min).d("lwe_alpha_max", io->alpha_max);
    j.i("l", g->l).i("Bgbit", g->Bgbit).i("Bg", g->Bg).i("halfBg", g->halfBg).u("maskMod", g->maskMod).i("kpl", g->kpl).u("offset", g->offset);
    std::vector<long long> h; for (int i = 0; i < g->l && i < 64; i++) h.push_back((uint32_t) g->h[i]);
    j.raw("h", jarr(h));
    j.i("N", t->N).i("k", t->k).d("tlwe_alpha_min", t->alpha_min).d("tlwe_alpha_max", t->alpha_max);
    j.i("extracted_n", t->extracted_lweparams.n).d("extracted_alpha_min", t->extracted_lweparams.alpha_min).d("extracted_alpha_max", t->extracted_lweparams.alpha_max);
    return j.str();
}

int main(int argc, char **argv) {
    Args args(argc, argv);
    out.open(args.s("out", "-"));
    install_crash_handler();
    int lo = args.i("lo", -5), hi = args.i("hi", 300), history = args.i("history", 0);
    std::vector<int32_t> lambdas;
    for (int l = lo; l <= hi; l++) lambdas.push_back(l);
    lambdas.push_back(INT32_MIN); lambdas.push_back(INT32_MAX); lambdas.push_back(INT32_MIN + 1); lambdas.push_back(65536 + 80); lambdas.push_back(-128);
    for (int32_t lam: lambdas) {
        int pfd[2]; if (pipe(pfd)) { perror("pipe"); return 2; }
        fflush(out.f);
        pid_t pid = fork();
        if (pid == 0) {
            close(pfd[0]);
            signal(SIGABRT, SIG_DFL); signal(SIGSEGV, SIG_DFL);
            { std::string op = args.s("out", "-"); std::string ce = op.size() > 6 && op.substr(op.size() - 6) == ".jsonl" ? op.substr(0, op.size() - 6) + ".san.child" : std::string("/dev/null");
              int dn = open(ce.c_str(), O_WRONLY | O_CREAT | O_APPEND, 0600); if (dn < 0) dn = open("/dev/null", O_WRONLY); dup2(dn, 2); }
            // what happened in this process before the request must not matter
            if (history == 1 || history == 2) {      // a custom, near-default parameter set imported through tfhe_io first
                for (double bk: {2e-8, 0.0, 7.0e-9, 3.0e-8}) for (double ksd: {3.0e-5, 2.44e-5}) {
                    PSet ps(history == 1 ? 630 : 500, 1024, 1, history == 1 ? 3 : 2, history == 1 ? 7 : 10, 8, 2, ksd, bk, 0.012467);
                    std::ostringstream os; export_tfheGateBootstrappingParameterSet_toStream(os, ps.gb);
                    std::istringstream is(os.str()); TFheGateBootstrappingParameterSet *imp = new_tfheGateBootstrappingParameterSet_fromStream(is); (void) imp;
                }
            } else if (history == 3) {               // the other level requested (and released) first, and this level requested twice
                TFheGateBootstrappingParameterSet *o = new_default_gate_bootstrapping_parameters(lam <= 80 ? 128 : 80); delete_gate_bootstrapping_parameters(o);
                TFheGateBootstrappingParameterSet *q = new_default_gate_bootstrapping_parameters(lam); delete_gate_bootstrapping_parameters(q);
            } else if (history == 5) {               // an earlier request for this level ran out of memory at its k-th allocation; the caller caught it
#ifdef VH_FAILPOINT_NEW
                for (int k = 1; k <= 12; k++) {
                    fp_count = 0; fp_fail_at = k;
                    try { TFheGateBootstrappingParameterSet *q = new_default_gate_bootstrapping_parameters(lam >= 1 && lam <= 128 ? lam : 100); fp_fail_at = -1; delete_gate_bootstrapping_parameters(q); }
                    catch (const std::bad_alloc &) { fp_fail_at = -1; }
                }
#endif
            } else if (history >= 6 && history <= 8) {   // the application's signal state: SIGABRT blocked / ignored / caught by a handler that returns
                if (history == 6) { sigset_t m; sigemptyset(&m); sigaddset(&m, SIGABRT); sigprocmask(SIG_BLOCK, &m, nullptr); }
                else if (history == 7) signal(SIGABRT, SIG_IGN);
                else { struct sigaction sa; memset(&sa, 0, sizeof sa); sa.sa_handler = [](int) {}; sigaction(SIGABRT, &sa, nullptr); }
            } else if (history == 9) {               // the library's parameter garbage collector released by the application between two requests
                TFheGateBootstrappingParameterSet *o = new_default_gate_bootstrapping_parameters(lam <= 80 ? 128 : 80); (void) o;
                TfheGarbageCollector::finalize();
                TFheGateBootstrappingParameterSet *q = new_default_gate_bootstrapping_parameters(lam >= 1 && lam <= 128 ? lam : 90); (void) q;
                TfheGarbageCollector::finalize();
            } else if (history == 4) {               // a key set of a custom parameter set generated, exported and re-imported first
                PSet ps(4, 1024, 1, 2, 10, 2, 2, 2.44e-5, 1e-8, 0.012467);
                TFheGateBootstrappingSecretKeySet *k = new_random_gate_bootstrapping_secret_keyset(ps.gb);
                std::ostringstream os; export_tfheGateBootstrappingCloudKeySet_toStream(os, &k->cloud);
                std::istringstream is(os.str()); TFheGateBootstrappingCloudKeySet *c = new_tfheGateBootstrappingCloudKeySet_fromStream(is);
                delete_gate_bootstrapping_cloud_keyset(c); delete_gate_bootstrapping_secret_keyset(k);
            }
            TFheGateBootstrappingParameterSet *p = new_default_gate_bootstrapping_parameters(lam);
            std::string f = p ? fields(p) : std::string("null");
            // usable? generate the smallest things that depend on the structural constraints
            ssize_t r = write(pfd[1], f.data(), f.size()); (void) r;
            _exit(0);
        }
        close(pfd[1]);
        std::string got; char buf[4096]; ssize_t r;
        while ((r = read(pfd[0], buf, sizeof buf)) > 0) got.append(buf, r);
        close(pfd[0]);
        int st = 0; waitpid(pid, &st, 0);
        J j; j.s("t", "lambda").i("lambda", lam).i("history", history);
        if (WIFSIGNALED(st)) j.s("status", "signal").i("signal", WTERMSIG(st));
        else if (WIFEXITED(st) && WEXITSTATUS(st) == 0 && !got.empty()) { j.s("status", "returned").raw("fields", got); }
        else j.s("status", "exit").i("code", WIFEXITED(st) ? WEXITSTATUS(st) : -1);
        out.line(j.str());
        out.evaluations++;
        char cell[48]; snprintf(cell, sizeof cell, "lambda=%d:history%d", lam, history); out.cell(cell);
    }
    out.finish();
    return 0;
}
