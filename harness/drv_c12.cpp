// C12: gadget decomposition: balanced digits, recomposition bound, input restored, position independence,
//      vectorised == scalar (digest compared across builds by the check)
#include "vh.hpp"
#include <thread>
#include <atomic>
#include <sched.h>
VH_MAIN_GLOBALS
using namespace vh;

static Rng rng;

struct Layout { int l, Bgbit; };

struct Decomp {
    int N, k, l, Bgbit;
    TLweParams *tl; TGswParams *tg;
    TorusPolynomial *in; IntPolynomial *res;      // res: array of l
    GuardBuf gin; std::vector<GuardBuf *> gres;
    Torus32 *in_orig; std::vector<int32_t *> res_orig;
    uint32_t my_offset; uint32_t Bg, half;
    Decomp(int N, int k, int l, int Bgbit) : N(N), k(k), l(l), Bgbit(Bgbit) {
        tl = new_TLweParams(N, k, 0., 0.25);
        tg = new_TGswParams(l, Bgbit, tl);
        in = new_TorusPolynomial(N);
        res = new_IntPolynomial_array(l, N);
        gin.alloc(N); in_orig = in->coefsT; in->coefsT = gin.p;
        for (int p = 0; p < l; p++) { gres.push_back(new GuardBuf(N)); res_orig.push_back(res[p].coefs); res[p].coefs = gres[p]->p; }
        Bg = 1u << Bgbit; half = Bg / 2;
        // offset recomputed independently: sum_p Bg/2 * 2^(32 - p*Bgbit)
        my_offset = 0;
        for (int p = 1; p <= l; p++) my_offset += half << (32 - p * Bgbit);
    }
    ~Decomp() {
        in->coefsT = in_orig; for (int p = 0; p < l; p++) { res[p].coefs = res_orig[p]; delete gres[p]; }
        delete_IntPolynomial_array(l, res); delete_TorusPolynomial(in); delete_TGswParams(tg); delete_TLweParams(tl);
    }
};

static uint64_t digest = 0x243F6A8885A308D3ULL;
static uint64_t n_formula_diff = 0;
static inline void dig(int32_t d) { digest = digest * 0x9E3779B97F4A7C15ULL + (uint32_t) d + 1; }

static std::string lname(int l, int Bgbit) { char b[32]; snprintf(b, sizeof b, "l%d.Bg%d", l, Bgbit); return b; }

// checks one decomposed polynomial; vals = the values that were put in
static void check_poly(Decomp &D, const std::vector<uint32_t> &vals, const char *fn) {
    const int N = D.N, l = D.l, Bgbit = D.Bgbit;
    const int64_t halfBg = D.half;
    const uint32_t trunc_bits = 32 - l * Bgbit;
    for (int j = 0; j < N; j++) {
        uint32_t x = vals[j];
        out.evaluations++;
        if ((uint32_t) D.in->coefsT[j] != x) {
            out.viol(std::string("decomp:input-modified:") + lname(l, Bgbit),
                     J().s("fn", fn).i("l", l).i("Bgbit", Bgbit).i("position", j).u("before", x).u("after", (uint32_t) D.in->coefsT[j]));
            return;
        }
        uint32_t recomposed = 0;
        for (int p = 0; p < l; p++) {
            int32_t d = D.res[p].coefs[j];
            dig(d);
            int32_t formula = (int32_t) (((x + D.my_offset) >> (32 - (p + 1) * Bgbit)) & (D.Bg - 1)) - (int32_t) D.half;
            if (d < -halfBg || d >= halfBg) {
                out.viol(std::string("decomp:digit-range:") + lname(l, Bgbit),
                         J().s("fn", fn).i("l", l).i("Bgbit", Bgbit).i("position", j).i("p", p).u("x", x).i("digit", d));
                return;
            }
            if (d != formula) n_formula_diff++;   // informational: another rounding convention is allowed by the property
            recomposed += (uint32_t) d << (32 - (p + 1) * Bgbit);
        }
        uint32_t diff = x - recomposed; // |diff| (cyclically) must be < 2^(32-l*Bgbit), == 0 when l*Bgbit == 32
        uint32_t adiff = (int32_t) diff < 0 ? 0u - diff : diff;
        bool ok = trunc_bits == 0 ? diff == 0 : adiff < (1u << trunc_bits);
        if (!ok) {
            out.viol(std::string("decomp:recompose:") + lname(l, Bgbit),
                     J().s("fn", fn).i("l", l).i("Bgbit", Bgbit).i("position", j).u("x", x).u("recomposed", recomposed).u("diff", diff));
            return;
        }
    }
    if (!D.gin.canary_ok()) out.viol("decomp:underrun:input", J().s("fn", fn).i("l", l).i("Bgbit", Bgbit));
    for (int p = 0; p < l; p++) if (!D.gres[p]->canary_ok()) { out.viol("decomp:underrun:result", J().s("fn", fn).i("l", l).i("Bgbit", Bgbit).i("p", p)); break; }
}

static void sweep(Decomp &D, int lg, int shard, int nshards) {
    const int N = D.N;
    std::vector<uint32_t> vals(N);
    uint64_t total_calls = (1ull << lg) / N; // each call covers N values
    uint64_t per = total_calls / nshards, lo = per * shard, hi = shard == nshards - 1 ? total_calls : lo + per;
    uint64_t stride_vals = 1ull << (32 - lg); // 1 when exhaustive
    VH_OP("tGswTorus32PolynomialDecompH:l=%d:Bgbit=%d", D.l, D.Bgbit);
    for (uint64_t c = lo; c < hi; c++) {
        uint32_t rot = (uint32_t) (c * 3);
        for (int j = 0; j < N; j++) {
            uint64_t idx = c * N + ((j + rot) & (N - 1));          // index of the value in the sweep
            uint32_t v = (uint32_t) (idx * stride_vals + (stride_vals > 1 ? rng.below(stride_vals) : 0));
            vals[j] = v; D.in->coefsT[j] = (int32_t) v;
        }
        tGswTorus32PolynomialDecompH(D.res, D.in, D.tg);
        check_poly(D, vals, "tGswTorus32PolynomialDecompH");
    }
    char cell[96]; snprintf(cell, sizeof cell, "sweep:%s:%s", lname(D.l, D.Bgbit).c_str(), lg == 32 ? "all-2^32" : "stratified");
    out.cell(cell, (hi - lo) * N);
}

static void boundaries(Decomp &D) {
    // every field boundary: values k*2^(32-p*Bgbit) +- 2 after removing the offset, all-ones, extremes
    const int N = D.N;
    std::vector<uint32_t> pool;
    for (int p = 1; p <= D.l; p++) {
        int sh = 32 - p * D.Bgbit;
        for (int t = 0; t < 40; t++) {
            uint32_t k = t < 8 ? (uint32_t) t : rng.u32();
            uint32_t base = (k << sh) - D.my_offset;
            for (int d = -2; d <= 2; d++) { pool.push_back(base + d); pool.push_back((k << sh) + d); }
        }
    }
    uint32_t ex[] = {0u, 1u, 0xFFFFFFFFu, 0x80000000u, 0x7FFFFFFFu, 0x80000001u, D.my_offset, 0u - D.my_offset, D.my_offset - 1, 0u - D.my_offset - 1};
    for (uint32_t e: ex) pool.push_back(e);
    std::vector<uint32_t> vals(N);
    VH_OP("tGswTorus32PolynomialDecompH:boundaries:l=%d:Bgbit=%d", D.l, D.Bgbit);
    for (size_t off = 0; off < pool.size() + N; off += N / 2) {
        for (int j = 0; j < N; j++) { vals[j] = pool[(off + j * 7) % pool.size()]; D.in->coefsT[j] = (int32_t) vals[j]; }
        tGswTorus32PolynomialDecompH(D.res, D.in, D.tg);
        check_poly(D, vals, "tGswTorus32PolynomialDecompH");
    }
    // same value in every position: all positions must give the same digits
    for (int t = 0; t < 16; t++) {
        uint32_t v = pool[rng.below(pool.size())];
        for (int j = 0; j < N; j++) { vals[j] = v; D.in->coefsT[j] = (int32_t) v; }
        tGswTorus32PolynomialDecompH(D.res, D.in, D.tg);
        check_poly(D, vals, "tGswTorus32PolynomialDecompH");
        for (int p = 0; p < D.l; p++) for (int j = 1; j < N; j++) if (D.res[p].coefs[j] != D.res[p].coefs[0]) {
            out.viol(std::string("decomp:position-dependent:") + lname(D.l, D.Bgbit), J().u("x", v).i("p", p).i("position", j).i("digit", D.res[p].coefs[j]).i("digit_pos0", D.res[p].coefs[0]));
            j = N; p = D.l;
        }
    }
    // sparse supports: the polynomial as a whole is an input too. One non-zero coefficient at every position in turn (N up to
    // 1024; a stride above), the zero polynomial, and random supports of every density 2^-1 .. 2^-10 (test vectors, monomials,
    // trivial samples look like this)
    VH_OP("tGswTorus32PolynomialDecompH:sparse-supports:l=%d:Bgbit=%d", D.l, D.Bgbit);
    { int step = N <= 1024 ? 1 : N / 1024;
      for (int j = 0; j < N; j += step) { uint32_t v = (j & 3) == 0 ? pool[rng.below(pool.size())] : rng.u32(); if (!v) v = 1;
          for (int q = 0; q < N; q++) { vals[q] = 0; D.in->coefsT[q] = 0; } vals[j] = v; D.in->coefsT[j] = (int32_t) v;
          tGswTorus32PolynomialDecompH(D.res, D.in, D.tg); check_poly(D, vals, "tGswTorus32PolynomialDecompH(one non-zero coefficient)"); }
      for (int q = 0; q < N; q++) { vals[q] = 0; D.in->coefsT[q] = 0; }
      tGswTorus32PolynomialDecompH(D.res, D.in, D.tg); check_poly(D, vals, "tGswTorus32PolynomialDecompH(zero polynomial)");
      for (int dens = 1; dens <= 10; dens++) for (int t = 0; t < 4; t++) {
          for (int q = 0; q < N; q++) { uint32_t v = rng.below(1u << dens) == 0 ? (rng.coin() ? rng.u32() : pool[rng.below(pool.size())]) : 0; vals[q] = v; D.in->coefsT[q] = (int32_t) v; }
          tGswTorus32PolynomialDecompH(D.res, D.in, D.tg); check_poly(D, vals, "tGswTorus32PolynomialDecompH(sparse support)"); }
      char c2[96]; snprintf(c2, sizeof c2, "sparse-supports:%s:N=%d", lname(D.l, D.Bgbit).c_str(), N); out.cell(c2, N / step + 41); }
    char cell[96]; snprintf(cell, sizeof cell, "boundaries:%s", lname(D.l, D.Bgbit).c_str()); out.cell(cell, pool.size());
}

static void tlwe_wrapper(int k, int l, int Bgbit, int reps) {
    const int N = 1024;
    TLweParams *tl = new_TLweParams(N, k, 0., 0.25);
    TGswParams *tg = new_TGswParams(l, Bgbit, tl);
    TLweSample *s = new_TLweSample(tl);
    IntPolynomial *res = new_IntPolynomial_array((k + 1) * l, N);
    uint32_t Bg = 1u << Bgbit, half = Bg / 2, off = 0;
    for (int p = 1; p <= l; p++) off += half << (32 - p * Bgbit);
    VH_OP("tGswTLweDecompH:k=%d:l=%d:Bgbit=%d", k, l, Bgbit);
    for (int rep = 0; rep < reps; rep++) {
        std::vector<uint32_t> before((k + 1) * N);
        for (int i = 0; i <= k; i++) for (int j = 0; j < N; j++) {
            uint32_t v = rep % 3 == 0 ? rng.u32() : rep % 3 == 1 ? ((rng.coin() ? 0x7FFFFFFFu : 0x80000000u) + (uint32_t) rng.range(-1, 1)) : (uint32_t) 0 - off + (uint32_t) rng.range(-2, 2);
            s->a[i].coefsT[j] = (int32_t) v; before[i * N + j] = v;
        }
        double var_before = s->current_variance = 0.125 * rep;
        tGswTLweDecompH(res, s, tg);
        out.evaluations++;
        bool bad = false;
        for (int i = 0; i <= k && !bad; i++) for (int j = 0; j < N && !bad; j++) {
            uint32_t x = before[i * N + j], rec = 0;
            if ((uint32_t) s->a[i].coefsT[j] != x) { out.viol("decomp:input-modified:tlwe", J().i("k", k).i("l", l).i("Bgbit", Bgbit).i("poly", i).i("position", j)); bad = true; break; }
            for (int p = 0; p < l; p++) {
                int32_t d = res[i * l + p].coefs[j]; dig(d);
                int32_t f = (int32_t) (((x + off) >> (32 - (p + 1) * Bgbit)) & (Bg - 1)) - (int32_t) half;
                if (d != f) n_formula_diff++;
                if (d < -(int32_t) half || d >= (int32_t) half) { out.viol("decomp:digit-range:tlwe", J().i("k", k).i("l", l).i("Bgbit", Bgbit).i("poly", i).i("position", j).i("p", p).u("x", x).i("digit", d)); bad = true; break; }
                rec += (uint32_t) d << (32 - (p + 1) * Bgbit);
            }
            uint32_t diff = x - rec; int tb = 32 - l * Bgbit; uint32_t adiff = (int32_t) diff < 0 ? 0u - diff : diff;
            if (!bad && !(tb == 0 ? diff == 0 : adiff < (1u << tb))) { out.viol("decomp:recompose:tlwe", J().i("k", k).i("l", l).i("Bgbit", Bgbit).u("x", x).u("diff", diff)); bad = true; }
        }
        if (s->current_variance != var_before) out.viol("decomp:input-modified:tlwe-variance", J().i("k", k));
    }
    char cell[96]; snprintf(cell, sizeof cell, "tlwe-wrapper:k=%d:%s", k, lname(l, Bgbit).c_str()); out.cell(cell, reps);
    delete_IntPolynomial_array((k + 1) * l, res); delete_TLweSample(s); delete_TGswParams(tg); delete_TLweParams(tl);
}

// several threads decompose at the same time, each under its own layout and ring degree (nothing the function derives from its
// parameters may be shared between calls); every polynomial is judged by a thread-local copy of the oracle
static void threads_mode(uint64_t seed, int T, int iters) {
    const Layout lay[] = {{3, 7}, {2, 10}, {4, 8}, {1, 16}, {6, 5}, {2, 16}, {8, 4}, {5, 6}, {16, 2}, {3, 10}, {7, 4}, {2, 5}};
    const int Ns[] = {1024, 512, 1024, 64, 2048, 1024, 16, 1024};
    std::atomic<uint64_t> bad{0}, polys{0}; std::atomic<int> ready{0};
    struct Wit { int l, Bgbit, N, pos; uint32_t x; const char *what; }; std::vector<Wit> wit(T, Wit{0, 0, 0, 0, 0, nullptr});
    std::vector<std::thread> th;
    for (int t = 0; t < T; t++) th.emplace_back([&, t] {
        Rng r(seed * 7907 + t); const int l = lay[t % 12].l, Bgbit = lay[t % 12].Bgbit, N = Ns[t % 8];
        Decomp D(N, 1, l, Bgbit);
        std::vector<uint32_t> vals(N);
        ready++; while (ready.load() < T) sched_yield();
        for (int it = 0; it < iters; it++) {
            int cls = it % 3;
            for (int j = 0; j < N; j++) { uint32_t v = cls == 0 ? r.u32() : cls == 1 ? (r.below(8) == 0 ? r.u32() : 0u) : (uint32_t) ((r.u32() << (32 - Bgbit)) - D.my_offset + (uint32_t) r.range(-2, 2)); vals[j] = v; D.in->coefsT[j] = (int32_t) v; }
            tGswTorus32PolynomialDecompH(D.res, D.in, D.tg);
            const char *what = nullptr; int pos = 0;
            for (int j = 0; j < N && !what; j++) {
                if ((uint32_t) D.in->coefsT[j] != vals[j]) { what = "input-modified"; pos = j; break; }
                uint32_t rec = 0; for (int p = 0; p < l; p++) { int32_t d = D.res[p].coefs[j]; if (d < -(int32_t) D.half || d >= (int32_t) D.half) { what = "digit-range"; pos = j; break; } rec += (uint32_t) d << (32 - (p + 1) * Bgbit); }
                if (what) break;
                uint32_t diff = vals[j] - rec, unit = l * Bgbit >= 32 ? 1u : 1u << (32 - l * Bgbit);
                if (!((diff < unit) || (0u - diff) < unit)) { what = "recompose"; pos = j; }
            }
            polys++;
            if (what && bad++ == 0) wit[t] = Wit{l, Bgbit, N, pos, vals[pos], what};
        }
    });
    for (auto &x: th) x.join();
    out.evaluations += polys.load();
    if (bad.load()) for (auto &w: wit) if (w.what) { out.viol(std::string("decomp:") + w.what + ":when-threads-use-different-layouts", J().i("l", w.l).i("Bgbit", w.Bgbit).i("N", w.N).i("position", w.pos).u("x", w.x).i("threads", T).u("bad_polynomials", bad.load())); break; }
    char cell[96]; snprintf(cell, sizeof cell, "threads:%d-threads-each-with-its-own-layout", T); out.cell(cell, polys.load());
    out.sample(J().s("mode", "threads").i("threads", T).i("polynomials_per_thread", iters));
}

int main(int argc, char **argv) {
    Args args(argc, argv);
    out.open(args.s("out", "-"));
    install_crash_handler();
    uint64_t seed = args.i("seed", 1);
    if (args.s("mode", "") == "threads") { rng.reseed(seed + 99); threads_mode(seed, args.i("threads", 12), args.i("iters", 400)); out.finish(); return 0; }
    int shard = args.i("shard", 0), nshards = args.i("nshards", 1);
    int l = args.i("l", 3), Bgbit = args.i("Bgbit", 7), lg = args.i("log2count", 26);
    int N = args.i("N", 1024);
    // process history: another layout (and another ring degree) is decomposed first; the digest and the value stream of the
    // layout under test start afterwards, so they stay comparable between builds
    if (args.i("prelude", 0)) {
        int l0 = l == 2 ? 3 : 2, bg0 = Bgbit == 8 ? 5 : 8;
        rng.reseed(seed * 31 + 7);
        { Decomp D0(N == 512 ? 1024 : 512, 1, l0, bg0); sweep(D0, 12, 0, 1); boundaries(D0); }
        tlwe_wrapper(2, l0, bg0, 2);
        digest = 0x243F6A8885A308D3ULL; n_formula_diff = 0;
        out.cell("history:other-layout-decomposed-first-in-this-process");
    }
    // identical value streams in every build: the PRNG depends only on (seed, layout, shard)
    rng.reseed(seed * 1000003ull + l * 101 + Bgbit * 7 + shard * 13);
    {
        Decomp D(N, 1, l, Bgbit);
        sweep(D, lg, shard, nshards);
        if (shard == 0) boundaries(D);
    }
    if (shard == 0) { tlwe_wrapper(1, l, Bgbit, 12); tlwe_wrapper(2, l, Bgbit, 12); }
    out.stat(J().s("kind", "digest").i("l", l).i("Bgbit", Bgbit).i("log2count", lg).i("shard", shard).i("nshards", nshards).i("N", N)
                     .s("digest", std::to_string(digest)));
    out.sample(J().i("l", l).i("Bgbit", Bgbit).i("N", N).i("log2count", lg).i("shard", shard).s("digest_of_all_digits", std::to_string(digest)).u("digits_differing_from_floor_formula", n_formula_diff));
    out.finish();
    return 0;
}
