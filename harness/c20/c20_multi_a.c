/* C20: a C99 program made of several source files that each include the public headers (the ordinary shape of a C client).
 * File A: keys, encryption, a gate; file B (c20_multi_b.c): writes the result with the FILE API and reads it back. */
#include <tfhe.h>
#include <tfhe_io.h>
#include <stdio.h>
int c20_store_and_reload(const LweSample *c, LweSample *back, const TFheGateBootstrappingParameterSet *p);
int main(void) {
    uint32_t seed[2] = {20260928u, 3u}; tfhe_random_generator_setSeed(seed, 2);
    TFheGateBootstrappingParameterSet *p = new_default_gate_bootstrapping_parameters(80);
    TFheGateBootstrappingSecretKeySet *sk = new_random_gate_bootstrapping_secret_keyset(p);
    LweSample *c = new_gate_bootstrapping_ciphertext_array(4, p);
    int bad = 0;
    for (int v = 0; v < 4; v++) {
        bootsSymEncrypt(c, v & 1, sk); bootsSymEncrypt(c + 1, v >> 1, sk);
        bootsNAND(c + 2, c, c + 1, &sk->cloud);
        if (c20_store_and_reload(c + 2, c + 3, p)) bad++;
        if (bootsSymDecrypt(c + 3, sk) != !((v & 1) & (v >> 1))) bad++;
    }
    delete_gate_bootstrapping_ciphertext_array(4, c); delete_gate_bootstrapping_secret_keyset(sk); delete_gate_bootstrapping_parameters(p);
    printf("multi-file C program: %d wrong\n", bad);
    return bad ? 1 : 0;
}
