/* C20: a C99 program that uses the library variants only through dlopen/dlsym: load a variant, generate a key set of the
 * default 80-bit parameters, evaluate gates, release everything, unload; then the next variant; then two variants at the
 * same time (one on a second thread); then the first one again. Every variant must behave the same. Prints one line per
 * step; exit status 0 iff every gate decrypted correctly. */
#define _GNU_SOURCE
#include <dlfcn.h>
#include <pthread.h>
#include <stdio.h>
#include <stdint.h>
#include <string.h>

#include <tfhe.h>      /* types only: nothing is linked, every function is found with dlsym */
typedef TFheGateBootstrappingParameterSet P; typedef TFheGateBootstrappingSecretKeySet SK; typedef TFheGateBootstrappingCloudKeySet CK; typedef LweSample CT;
struct api {
    void *h;
    P *(*params)(int32_t); SK *(*keygen)(const P *); CT *(*newct)(int32_t, const P *);
    void (*enc)(CT *, int32_t, const SK *); int32_t (*dec)(const CT *, const SK *);
    void (*nand)(CT *, const CT *, const CT *, const CK *); void (*xor_)(CT *, const CT *, const CT *, const CK *);
    void (*mux)(CT *, const CT *, const CT *, const CT *, const CK *); void (*not_)(CT *, const CT *, const CK *);
    void (*delct)(int32_t, CT *); void (*delsk)(SK *); void (*delp)(P *);
    void (*seed)(uint32_t *, int32_t);
};
static int load(struct api *a, const char *path) {
    memset(a, 0, sizeof *a);
    a->h = dlopen(path, RTLD_NOW | RTLD_LOCAL);
    if (!a->h) { printf("dlopen-failed %s: %s\n", path, dlerror()); return 0; }
#define SYM(field, name) do { *(void **) &a->field = dlsym(a->h, name); if (!a->field) { printf("dlsym-failed %s in %s\n", name, path); return 0; } } while (0)
    SYM(params, "new_default_gate_bootstrapping_parameters"); SYM(keygen, "new_random_gate_bootstrapping_secret_keyset");
    SYM(newct, "new_gate_bootstrapping_ciphertext_array"); SYM(enc, "bootsSymEncrypt"); SYM(dec, "bootsSymDecrypt");
    SYM(nand, "bootsNAND"); SYM(xor_, "bootsXOR"); SYM(mux, "bootsMUX"); SYM(not_, "bootsNOT");
    SYM(delct, "delete_gate_bootstrapping_ciphertext_array"); SYM(delsk, "delete_gate_bootstrapping_secret_keyset");
    SYM(delp, "delete_gate_bootstrapping_parameters"); SYM(seed, "tfhe_random_generator_setSeed");
    return 1;
}
static const CK *cloud_of(const SK *sk) { return &sk->cloud; }

static int use(const char *path, const char *who, uint32_t seedv) {
    struct api a; int bad = 0;
    if (!load(&a, path)) return 1;
    uint32_t sv[2] = {seedv, 20u}; a.seed(sv, 2);
    P *p = a.params(80); SK *sk = a.keygen(p); const CK *ck = cloud_of(sk);
    CT *c = a.newct(8, p);
    for (int v = 0; v < 8; v++) {
        int x = v & 1, y = (v >> 1) & 1, z = (v >> 2) & 1;
        a.enc(c, x, sk); a.enc(c + 1, y, sk); a.enc(c + 2, z, sk);
        a.nand(c + 3, c, c + 1, ck); a.xor_(c + 4, c, c + 1, ck); a.mux(c + 5, c, c + 1, c + 2, ck); a.not_(c + 6, c, ck);
        if (a.dec(c + 3, sk) != !(x & y)) bad++;
        if (a.dec(c + 4, sk) != (x ^ y)) bad++;
        if (a.dec(c + 5, sk) != (x ? y : z)) bad++;
        if (a.dec(c + 6, sk) != !x) bad++;
    }
    a.delct(8, c); a.delsk(sk); a.delp(p);
    int rc = dlclose(a.h);
    printf("%s %s: %d wrong of 32, dlclose=%d\n", who, path, bad, rc); fflush(stdout);
    return bad;
}
struct targ { const char *path; int bad; };
static void *thread_main(void *v) { struct targ *t = v; t->bad = use(t->path, "second-thread", 7u); return 0; }

int main(int argc, char **argv) {
    int bad = 0;
    for (int i = 1; i < argc; i++) bad += use(argv[i], "sequential", (uint32_t) i);
    for (int i = 1; i + 1 < argc; i += 2) {          /* two variants loaded and used at the same time */
        struct targ t = {argv[i + 1], 0}; pthread_t th;
        pthread_create(&th, 0, thread_main, &t);
        bad += use(argv[i], "main-while-another-variant-runs", 99u);
        pthread_join(th, 0); bad += t.bad;
    }
    if (argc > 1) bad += use(argv[1], "first-variant-again", 5u);
    printf("RESULT %s (%d wrong)\n", bad ? "FAIL" : "PASS", bad);
    return bad ? 1 : 0;
}
