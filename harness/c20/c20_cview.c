/* compiled as C99: the C view of the public structures */
#include <stdio.h>
#include "tfhe.h"
#define VIEW_NAME cview_dump_impl
#define VIEW_HASH cview_hash
#define VIEW_LWEPARAMS cview_lweparams
#define VIEW_TLWEPARAMS cview_tlweparams
#define VIEW_TGSWPARAMS cview_tgswparams
#define VIEW_LWESAMPLE cview_lwesample
#define VIEW_TLWESAMPLE cview_tlwesample
#include "c20_view.inc"
void cview_dump(FILE *f, const TFheGateBootstrappingSecretKeySet *sk, const LweSample *ct) { cview_dump_impl(f, sk, ct); }
/* a C program using the C API end to end: returns the decryption of NAND(1,1) xor'd with AND(1,1)<<1 */
int cview_use_api(const TFheGateBootstrappingSecretKeySet *sk) {
    const TFheGateBootstrappingParameterSet *ps = sk->params;
    LweSample *a = new_gate_bootstrapping_ciphertext(ps), *b = new_gate_bootstrapping_ciphertext(ps), *r = new_gate_bootstrapping_ciphertext(ps);
    int res;
    bootsSymEncrypt(a, 1, sk); bootsSymEncrypt(b, 1, sk);
    bootsNAND(r, a, b, &sk->cloud); res = bootsSymDecrypt(r, sk);
    bootsAND(r, a, b, &sk->cloud); res |= bootsSymDecrypt(r, sk) << 1;
    delete_gate_bootstrapping_ciphertext(a); delete_gate_bootstrapping_ciphertext(b); delete_gate_bootstrapping_ciphertext(r);
    return res;
}
