#include <tfhe.h>
#include <tfhe_io.h>
#include <stdio.h>
int c20_store_and_reload(const LweSample *c, LweSample *back, const TFheGateBootstrappingParameterSet *p) {
    FILE *f = tmpfile(); if (!f) return 1;
    export_gate_bootstrapping_ciphertext_toFile(f, c, p);
    rewind(f);
    import_gate_bootstrapping_ciphertext_fromFile(f, back, p);
    fclose(f);
    return 0;
}
