// C02: circuits of any depth stay correct; gate output noise is bounded and independent of the inputs' noise/history.
//  - every wire of every netlist is compared with a plaintext interpreter
//  - the phase error of every bootstrapped gate output is accumulated per (gate group, input class) cell;
//    the acceptance tests on these moments are done offline by checks/c02.py
#include "gates.hpp"
VH_MAIN_GLOBALS
using namespace vh;

static Rng rng;
static const int64_t E32 = 1ll << 27;

struct Acc { uint64_t n = 0; double s1 = 0, s2 = 0, s4 = 0, mx = 0; };
static std::map<std::string, Acc> accs;

enum WClass { W_FRESH = 0, W_CONST = 1, W_INJ = 2, W_GATE = 3 };

struct Wire { LweSample *ct; int bit; int depth; int wclass; bool trivial_mask; };

struct Net {
    TFheGateBootstrappingParameterSet *params; TFheGateBootstrappingSecretKeySet *sk; const TFheGateBootstrappingCloudKeySet *ck;
    std::string cfg; std::vector<Wire> w; int n; uint64_t wrong = 0;
    int add(LweSample *ct, int bit, int depth, int wc, bool triv) { w.push_back({ct, bit, depth, wc, triv}); return (int) w.size() - 1; }
    LweSample *fresh_ct() { return new_gate_bootstrapping_ciphertext(params); }
    int input(int bit) { LweSample *c = fresh_ct(); bootsSymEncrypt(c, bit, sk); return add(c, bit, 0, W_FRESH, false); }
    // a Boolean crosses the API as an int32: any non-zero value is true (masks like K & 4, -1, INT32_MIN)
    int constant(int bit) { static const int32_t truthy[] = {1, 1, 2, 3, 4, -1, 6, 8, 0x40000000, INT32_MIN, INT32_MAX, 256, -2};
        LweSample *c = fresh_ct(); bootsCONSTANT(c, bit ? truthy[rng.below(13)] : 0, ck); return add(c, bit, 0, W_CONST, true); }
    int hostile(int bit) {   // admissible but maximally noisy: exactly +-1/32 (or just inside) from +-1/8
        LweSample *c = fresh_ct(); bootsSymEncrypt(c, bit, sk);
        int64_t e = (rng.coin() ? 1 : -1) * (E32 - (int64_t) rng.below(3));
        inject_phase(c, bit, e, sk); return add(c, bit, 0, W_INJ, false);
    }
    void clear() { for (auto &x: w) delete_gate_bootstrapping_ciphertext(x.ct); w.clear(); }

    static const char *inclass(const Wire &x) {
        if (x.wclass == W_FRESH) return "fresh";
        if (x.wclass == W_CONST) return "const";
        if (x.wclass == W_INJ) return "inj";
        return x.depth >= 10 ? "deep" : "shallow";
    }
    // is the mask of the gate's internal combination identically zero? (then no blind rotation happens: less noise, by design)
    bool zero_mask(int g, int a, int b, int c) const {
        const GateSpec &s = GATES[g];
        if (g == G_MUX) return false; // handled conservatively below via trivial flags
        for (int i = 0; i < n; i++) { U v = (U) s.ca * (U) w[a].ct->a[i] + (U) s.cb * (U) w[b].ct->a[i]; if (v) return false; }
        return true;
    }
    // evaluate gate g; out_idx < 0 => new wire, else in-place update of that wire (which may be an input of the gate)
    int gate(int g, int a, int b = -1, int c = -1, int out_idx = -1) {
        const GateSpec &s = GATES[g];
        int vb = b >= 0 ? w[b].bit : 0, vc = c >= 0 ? w[c].bit : 0;
        int want = gate_truth(g, w[a].bit, vb, vc);
        int depth = w[a].depth; if (b >= 0 && w[b].depth > depth) depth = w[b].depth; if (c >= 0 && w[c].depth > depth) depth = w[c].depth;
        bool boot = g <= G_MUX;
        std::string cls;
        bool zmask = false;
        if (boot) {
            // input class of the gate = the "worst" class among its operands, for the independence comparison
            int rank = 0; const char *names[] = {"fresh", "shallow", "deep", "inj"};
            auto rk = [&](const Wire &x) { const char *k = inclass(x); return !strcmp(k, "inj") ? 3 : !strcmp(k, "deep") ? 2 : !strcmp(k, "shallow") ? 1 : 0; };
            rank = rk(w[a]); if (b >= 0 && rk(w[b]) > rank) rank = rk(w[b]); if (c >= 0 && rk(w[c]) > rank) rank = rk(w[c]);
            cls = names[rank];
            // one ciphertext object in two or three operand roles: judged as a class of its own (its output is a bootstrapped
            // gate output like any other)
            if ((b >= 0 && w[a].ct == w[b].ct) || (c >= 0 && (w[a].ct == w[c].ct || w[b].ct == w[c].ct))) cls = std::string("shared-") + names[rank];
            if (g != G_MUX) zmask = zero_mask(g, a, b, c);
            else zmask = w[a].trivial_mask && w[b].trivial_mask && w[c].trivial_mask;
            // MUX with partially trivial operands runs one or two rotations on a zero mask: keep those apart as well
            if (g == G_MUX && !zmask) {
                bool z1 = true, z2 = true;
                for (int i = 0; i < n && (z1 || z2); i++) { if ((U) w[a].ct->a[i] + (U) w[b].ct->a[i]) z1 = false; if ((U) w[c].ct->a[i] - (U) w[a].ct->a[i]) z2 = false; }
                if (z1 || z2) zmask = true;
            }
        }
        LweSample *r; int idx;
        if (out_idx >= 0) { r = w[out_idx].ct; idx = out_idx; } else { r = fresh_ct(); idx = -1; }
        VH_OP("boots%s:%s:netlist", s.name, cfg.c_str());
        gate_eval(g, r, w[a].ct, b >= 0 ? w[b].ct : nullptr, c >= 0 ? w[c].ct : nullptr, w[a].bit, ck);
        int got = bootsSymDecrypt(r, sk);
        out.evaluations++;
        double e = phase_error(r, want, sk);
        if (got != want) {
            wrong++;
            out.viol(std::string("netlist:wire-mismatch:") + s.name, J().s("config", cfg).s("gate", s.name).i("depth", depth + 1).i("decrypted", got).i("interpreter", want)
                    .s("input_class", cls).d("phase_error", e).i("a", w[a].bit).i("b", vb).i("c", vc));
        }
        if (boot) {
            std::string key = cfg + "|" + (g == G_MUX ? "MUX" : "BIN") + "|" + (zmask ? "zero-mask" : cls);
            Acc &A = accs[key]; A.n++; A.s1 += e; A.s2 += e * e; A.s4 += e * e * e * e; if (fabs(e) > A.mx) A.mx = fabs(e);
            std::string key2 = cfg + "|gate:" + s.name + "|" + (zmask ? "zero-mask" : "all");
            Acc &B = accs[key2]; B.n++; B.s1 += e; B.s2 += e * e; B.s4 += e * e * e * e; if (fabs(e) > B.mx) B.mx = fabs(e);
            if (fabs(e) >= 3.0 / 64) out.viol(std::string("netlist:error-magnitude:") + s.name, J().s("config", cfg).s("gate", s.name).d("phase_error", e).d("limit", 3.0 / 64).s("input_class", cls));
            char cell[160]; snprintf(cell, sizeof cell, "%s:%s:%s", cfg.c_str(), s.name, zmask ? "zero-mask" : cls.c_str());
            if (zmask) out.tcell(cell); else out.cell(cell);
        }
        bool triv = !boot && ((g == G_CONSTANT) || w[a].trivial_mask);
        int nd = boot ? depth + 1 : depth;
        int wc = boot ? W_GATE : w[a].wclass;
        if (idx >= 0) { w[idx].bit = want; w[idx].depth = nd; w[idx].wclass = wc; w[idx].trivial_mask = triv; return idx; }
        return add(r, want, nd, wc, triv);
    }
};

static int rnd_bin_gate() { return (int) rng.below(10); }

// ---- netlist families ------------------------------------------------------------------------------------------
static void random_dag(Net &N, int n_inputs, int n_gates) {
    for (int i = 0; i < n_inputs; i++) { int r = rng.below(10); if (r == 0) N.constant(rng.below(2)); else if (r <= 2) N.hostile(rng.below(2)); else N.input(rng.below(2)); }
    for (int i = 0; i < n_gates; i++) {
        int W = (int) N.w.size(); int r = rng.below(20);
        // prefer recent wires so that depth grows
        auto pick = [&]() { return rng.below(3) == 0 ? (int) rng.below(W) : W - 1 - (int) rng.below(W < 12 ? W : 12); };
        if (r == 0) N.gate(G_NOT, pick());
        else if (r == 1) N.gate(G_COPY, pick());
        else if (r <= 4) N.gate(G_MUX, pick(), pick(), pick());
        else N.gate(rnd_bin_gate(), pick(), pick());
    }
}
static void nand_chain_inplace(Net &N, int depth) {
    int c = N.input(rng.below(2));
    for (int i = 0; i < depth; i++) {
        int x = i % 7 == 3 ? N.hostile(rng.below(2)) : N.input(rng.below(2));
        N.gate(G_NAND, c, x, -1, c);        // c = NAND(c, x), result written over the operand
    }
}
static void balanced_tree(Net &N, int leaves, int g) {
    std::vector<int> cur; for (int i = 0; i < leaves; i++) cur.push_back(N.input(rng.below(2)));
    while (cur.size() > 1) { std::vector<int> nx; for (size_t i = 0; i + 1 < cur.size(); i += 2) nx.push_back(N.gate(g, cur[i], cur[i + 1])); if (cur.size() & 1) nx.push_back(cur.back()); cur = nx; }
}
static void fanout(Net &N, int width) {
    int src = N.gate(G_XOR, N.input(rng.below(2)), N.input(rng.below(2)));
    std::vector<int> outs;
    for (int i = 0; i < width; i++) outs.push_back(N.gate(rnd_bin_gate(), src, i % 5 == 0 ? src : N.input(rng.below(2))));   // includes gates fed twice by the same wire
    for (int i = 0; i + 1 < width; i += 2) N.gate(G_MUX, src, outs[i], outs[i + 1]);
}
static void ripple_adder(Net &N, int bits) {
    std::vector<int> a, b; for (int i = 0; i < bits; i++) { a.push_back(N.input(rng.below(2))); b.push_back(N.input(rng.below(2))); }
    int carry = N.constant(0); uint32_t va = 0, vb = 0, vs = 0;
    for (int i = 0; i < bits; i++) { va |= N.w[a[i]].bit << i; vb |= N.w[b[i]].bit << i; }
    for (int i = 0; i < bits; i++) {
        int x = N.gate(G_XOR, a[i], b[i]);
        int s = N.gate(G_XOR, x, carry);
        int c1 = N.gate(G_AND, a[i], b[i]);
        int c2 = N.gate(G_AND, x, carry);
        carry = N.gate(G_OR, c1, c2);
        vs |= (uint32_t) N.w[s].bit << i;
    }
    vs |= (uint32_t) N.w[carry].bit << bits;
    out.evaluations++;
    if (vs != va + vb) out.viol("netlist:adder-sum", J().s("config", N.cfg).u("a", va).u("b", vb).u("interpreter_sum", vs));
}
static void comparator_and_muxtree(Net &N, int bits) {
    std::vector<int> a, b; for (int i = 0; i < bits; i++) { a.push_back(N.input(rng.below(2))); b.push_back(N.input(rng.below(2))); }
    int gt = N.constant(0);
    for (int i = 0; i < bits; i++) {   // gt = (a_i xnor b_i) ? gt : a_i
        int eq = N.gate(G_XNOR, a[i], b[i]);
        gt = N.gate(G_MUX, eq, gt, a[i]);
    }
    // 8-to-1 multiplexer tree selected by three wires of mixed provenance
    std::vector<int> data; for (int i = 0; i < 8; i++) data.push_back(i % 3 == 0 ? N.hostile(rng.below(2)) : N.input(rng.below(2)));
    int sel[3] = {gt, N.gate(G_NOT, gt), N.input(rng.below(2))};
    for (int lvl = 0; lvl < 3; lvl++) { std::vector<int> nx; for (size_t i = 0; i + 1 < data.size(); i += 2) nx.push_back(N.gate(G_MUX, sel[lvl], data[i + 1], data[i])); data = nx; }
}
// in-place conditional updates: an oblivious write into a small memory (slot = MUX(hit, value, slot), result overwrites an
// operand), a selector overwritten by its own MUX, and in-place two-input gates on either operand
static void inplace_updates(Net &N, int slots, int writes) {
    std::vector<int> mem; for (int i = 0; i < slots; i++) mem.push_back(N.input(rng.below(2)));
    for (int wv = 0; wv < writes; wv++) {
        int value = N.input(rng.below(2));
        for (int i = 0; i < slots; i++) {
            int hit = (int) rng.below(slots) == i ? N.input(1) : N.input(0);
            N.gate(G_MUX, hit, value, mem[i], mem[i]);            // result is the third operand
        }
        int sel = N.input(rng.below(2));
        N.gate(G_MUX, sel, mem[wv % slots], value, sel);           // result is the first operand
        int y = N.input(rng.below(2));
        N.gate(G_MUX, sel, y, mem[(wv + 1) % slots], y);            // result is the second operand
        N.gate(rnd_bin_gate(), mem[0], y, -1, y);                   // two-input gate writing over its second operand
        N.gate(rnd_bin_gate(), y, mem[0], -1, y);                   // ... and over its first operand
    }
}
// gates whose operands are all maximally noisy admissible inputs, and the same gates on fresh inputs (for the independence test)
static void class_probe(Net &N, int count) {
    for (int i = 0; i < count; i++) {
        int g = rnd_bin_gate();
        N.gate(g, N.hostile(rng.below(2)), N.hostile(rng.below(2)));
        N.gate(g, N.input(rng.below(2)), N.input(rng.below(2)));
        if (i % 4 == 0) { N.gate(G_MUX, N.hostile(rng.below(2)), N.hostile(rng.below(2)), N.hostile(rng.below(2))); N.gate(G_MUX, N.input(rng.below(2)), N.input(rng.below(2)), N.input(rng.below(2))); }
    }
}

// the same ciphertext object in several operand roles of one gate, with fresh and with maximally noisy admissible inputs
static void shared_operands(Net &N, int count) {
    for (int i = 0; i < count; i++) {
        int x = (i & 1) ? N.hostile(rng.below(2)) : N.input(rng.below(2)), a = (i & 2) ? N.hostile(rng.below(2)) : N.input(rng.below(2));
        N.gate(G_MUX, a, x, x); N.gate(G_MUX, a, a, x); N.gate(G_MUX, a, x, a); N.gate(G_MUX, x, x, x);
        for (int r = 0; r < 3; r++) N.gate(rnd_bin_gate(), x, x);
    }
}

int main(int argc, char **argv) {
    Args args(argc, argv);
    out.open(args.s("out", "-"));
    install_crash_handler();
    uint64_t seed = args.i("seed", 1);
    int lambda = args.i("lambda", 128), budget = args.i("gates", 1500), shard = args.i("shard", 0);
    if (args.i("prelude", 0)) { rng.reseed(seed * 4241 + 3); seed_library(seed * 4243 + 5); history_other_parameter_set(rng); }
    rng.reseed(seed * 1000003ull + lambda + shard * 7919);
    seed_library(seed * 131 + lambda + shard);
    if (args.s("mode", "netlists") == "keybias") {
        // many key-switching keys generated exactly as the gate API does (extracted ring key -> LWE key, noise alpha_min of the
        // in/out parameters): the exact mean each key imposes on every gate output
        int count = args.i("count", 64);
        TFheGateBootstrappingParameterSet *p = default_params(lambda);
        const int n = p->in_out_params->n, NN = p->tgsw_params->tlwe_params->N * p->tgsw_params->tlwe_params->k, t = p->ks_t, bb = p->ks_basebit, base = 1 << bb;
        char cfgb[64]; snprintf(cfgb, sizeof cfgb, "%s/%s/%dbit", flavor_name(), backend_name(), lambda <= 80 ? 80 : 128);
        LweParams *Pext = new_LweParams(NN, p->tgsw_params->tlwe_params->alpha_min, 0.25);
        std::vector<double> biases; double mx = 0, s2 = 0;
        for (int c = 0; c < count; c++) {
            LweKey *kin = new_LweKey(Pext), *kout = new_LweKey(p->in_out_params); lweKeyGen(kin); lweKeyGen(kout);
            LweKeySwitchKey *ks = new_LweKeySwitchKey(NN, t, bb, p->in_out_params);
            VH_OP("lweCreateKeySwitchKey:keybias:%d", lambda);
            lweCreateKeySwitchKey(ks, kin, kout);
            double sum = 0;
            for (int i = 0; i < NN; i++) for (int j = 0; j < t; j++) for (int h = 1; h < base; h++) {
                U msg = (U) kin->key[i] * (U) h * ((U) 1 << (32 - (j + 1) * bb));
                sum += (double) (int32_t) (ref_lwe_phase(&ks->ks[i][j][h], kout->key, n) - msg);
            }
            double bias = -(sum / base) / 4294967296.0;
            biases.push_back(bias); if (fabs(bias) > mx) mx = fabs(bias); s2 += bias * bias;
            out.evaluations++;
            delete_LweKeySwitchKey(ks); delete_LweKey(kin); delete_LweKey(kout);
        }
        std::string arr = "["; for (size_t i = 0; i < biases.size(); i++) { char b[32]; snprintf(b, sizeof b, "%s%.3e", i ? "," : "", biases[i]); arr += b; } arr += "]";
        out.stat(J().s("kind", "keybias-sweep").s("config", cfgb).i("keys", count).d("max_abs_expected_output_mean", mx).d("rms", sqrt(s2 / count)).raw("per_key", arr));
        char cell[96]; snprintf(cell, sizeof cell, "%s:per-key-mean:%d-keys", cfgb, count); out.cell(cell, count); out.cell(std::string(cfgb) + ":per-key-mean");
        out.sample(J().s("mode", "keybias").s("config", cfgb).i("keys", count).d("max_abs_expected_output_mean", mx));
        delete_LweParams(Pext); delete_gate_bootstrapping_parameters(p);
        out.finish();
        return 0;
    }
    Net N;
    N.params = default_params(lambda);
    VH_OP("keygen:lambda=%d", lambda);
    N.sk = new_random_gate_bootstrapping_secret_keyset(N.params);
    N.ck = &N.sk->cloud; N.n = N.params->in_out_params->n;
    { char b[64]; snprintf(b, sizeof b, "%s/%s/%dbit", flavor_name(), backend_name(), lambda <= 80 ? 80 : 128); N.cfg = b; }
    // the mean that THIS key imposes on every bootstrapped output, computed exactly from the key material: the key switch
    // subtracts one row per (i,j) chosen by a uniformly distributed digit h (h = 0: no row), so the expected contribution of the
    // key-switching noise is -(1/base) * sum over all rows (i,j,h>=1) of their noise (the blind rotation's noise has mean 0)
    {
        const TFheGateBootstrappingParameterSet *gb = N.params; const LweKeySwitchKey *ks = N.sk->cloud.bkFFT->ks;
        const int n = gb->in_out_params->n, NN = gb->tgsw_params->tlwe_params->N, k = gb->tgsw_params->tlwe_params->k, t = gb->ks_t, bb = gb->ks_basebit, base = 1 << bb;
        std::vector<int32_t> ext(k * NN); for (int i = 0; i < k; i++) memcpy(&ext[i * NN], N.sk->tgsw_key->tlwe_key.key[i].coefs, 4 * NN);
        double sum = 0; uint64_t rows = 0;
        for (int i = 0; i < k * NN; i++) for (int j = 0; j < t; j++) for (int h = 1; h < base; h++) {
            U msg = (U) ext[i] * (U) h * ((U) 1 << (32 - (j + 1) * bb));
            sum += (double) (int32_t) (ref_lwe_phase(&ks->ks[i][j][h], N.sk->lwe_key->key, n) - msg); rows++;
        }
        double bias = -(sum / base) / 4294967296.0;
        out.stat(J().s("kind", "keybias").s("config", N.cfg).i("shard", shard).d("expected_output_mean_from_key_switching_rows", bias).u("rows", rows));
        out.evaluations++;
    }
    uint64_t start = out.evaluations; int family = 0; std::map<std::string, int> fam_count;
    while ((int) (out.evaluations - start) < budget) {
        int left = budget - (int) (out.evaluations - start);
        const char *fname = "";
        switch (family++ % 9) {
            case 8: fname = "shared-operand-objects"; shared_operands(N, left < 140 ? left / 7 + 1 : 20); break;
            case 0: fname = "random-dag"; random_dag(N, 12, left < 300 ? left : 300); break;
            case 1: fname = "nand-chain-inplace"; nand_chain_inplace(N, left < 200 ? left : 200); break;
            case 2: fname = "balanced-tree"; balanced_tree(N, 32, rnd_bin_gate()); break;
            case 3: fname = "fanout-64"; fanout(N, 64); break;
            case 4: fname = "ripple-adder-8"; ripple_adder(N, 8); break;
            case 5: fname = "comparator+muxtree"; comparator_and_muxtree(N, 8); break;
            case 6: fname = "class-probe"; class_probe(N, left < 120 ? left / 3 + 1 : 40); break;
            case 7: fname = "in-place-conditional-updates"; inplace_updates(N, 4, left < 80 ? 1 : 4); break;
        }
        int maxd = 0; for (auto &x: N.w) if (x.depth > maxd) maxd = x.depth;
        fam_count[fname]++;
        if (out.nsamples < 7) out.sample(J().s("netlist", fname).s("config", N.cfg).u("wires", N.w.size()).i("max_depth", maxd).u("wire_mismatches_so_far", N.wrong));
        N.clear();
    }
    for (auto &kv: accs) {
        const Acc &A = kv.second;
        out.stat(J().s("kind", "noise").s("cell", kv.first).u("n", A.n).d("s1", A.s1).d("s2", A.s2).d("s4", A.s4).d("max", A.mx));
    }
    delete_gate_bootstrapping_secret_keyset(N.sk);
    delete_gate_bootstrapping_parameters(N.params);
    out.finish();
    return 0;
}
