// C07: fresh ciphertexts and key rows carry exactly the configured noise, fresh uniform masks; balanced binary keys;
//      all randomness comes from the library generator (re-seeding reproduces, different seeds differ).
// The driver records exact phase errors (harness arithmetic with the secret keys) as moment accumulators per cell;
// the acceptance tests against the discretised Gaussian are done offline by checks/c07.py.
#include "gates.hpp"
#include "iokinds.hpp"
#include <thread>
#include <random>
#include <mutex>
#include <condition_variable>
#include <functional>
VH_MAIN_GLOBALS
using namespace vh;

static Rng rng;

struct Mom { uint64_t n = 0; double s1 = 0, s2 = 0, s3 = 0, s4 = 0, mx = 0;
    inline void add(double e) { n++; s1 += e; double e2 = e * e; s2 += e2; s3 += e2 * e; s4 += e2 * e2; double a = fabs(e); if (a > mx) mx = a; }
    void merge(const Mom &o) { n += o.n; s1 += o.s1; s2 += o.s2; s3 += o.s3; s4 += o.s4; if (o.mx > mx) mx = o.mx; } };

struct MaskStat { uint64_t hist[4][256]; uint64_t n = 0; double sxy = 0, sx = 0, sxx = 0; int32_t prev = 0; bool has_prev = false;
    MaskStat() { memset(hist, 0, sizeof hist); }
    inline void add(int32_t w) { uint32_t u = (uint32_t) w; hist[0][u & 255]++; hist[1][(u >> 8) & 255]++; hist[2][(u >> 16) & 255]++; hist[3][u >> 24]++; n++;
        double x = (double) w; sx += x; sxx += x * x; if (has_prev) sxy += x * (double) prev; prev = w; has_prev = true; }
    void break_chain() { has_prev = false; } };

static void emit_mom(const std::string &cell, const Mom &m, double alpha, const char *model, int fft_k, const J &extra) {
    J j = extra; j.s("kind", "noise").s("cell", cell).u("n", m.n).d("s1", m.s1).d("s2", m.s2).d("s3", m.s3).d("s4", m.s4).d("max", m.mx).d("alpha", alpha).s("model", model).i("fft_allowance_k", fft_k);
    out.stat(j); out.cell(cell, m.n);
}
static void emit_mask(const std::string &cell, const MaskStat &s) {
    double chi[4];
    for (int b = 0; b < 4; b++) { double e = (double) s.n / 256, c = 0; for (int v = 0; v < 256; v++) { double d = s.hist[b][v] - e; c += d * d / e; } chi[b] = c; }
    double mean = s.sx / s.n, var = s.sxx / s.n - mean * mean, corr = (s.sxy / (s.n - 1) - mean * mean) / var;
    out.stat(J().s("kind", "mask").s("cell", cell).u("n", s.n).d("chi2_byte0", chi[0]).d("chi2_byte1", chi[1]).d("chi2_byte2", chi[2]).d("chi2_byte3", chi[3])
                     .d("mean_over_2^31", mean / 2147483648.0).d("var_over_uniform", var / (4294967296.0 * 4294967296.0 / 12)).d("lag1_corr", corr));
    out.cell(cell, s.n);
}

// ---------------------------------------------------------------- fresh LWE
static void fresh_lwe(int K) {
    double alphas[] = {ldexp(1., -30), ldexp(1., -25), ldexp(1., -20), ldexp(1., -15), ldexp(1., -10), ldexp(1., -5), 2.44e-5, 7.18e-9, 0.012467};
    for (double alpha: alphas) {      // the sampler itself
        Mom m; VH_OP("gaussian32:alpha=%g", alpha);
        for (int i = 0; i < K; i++) { Torus32 mu = rng.i32(); m.add((double) (int32_t) ((U) gaussian32(mu, alpha) - (U) mu)); out.evaluations++; }
        char cell[96]; snprintf(cell, sizeof cell, "gaussian32:alpha=2^%.2f", log2(alpha));
        emit_mom(cell, m, alpha, "trunc-gaussian", 0, J());
    }
    int ns[] = {1, 8, 500, 630};
    for (int n: ns) {
        LweParams *P = new_LweParams(n, 1e-9, 0.25); LweKey *Kk = new_LweKey(P); lweKeyGen(Kk); LweSample *c = new_LweSample(P);
        int ones = 0; for (int i = 0; i < n; i++) { ones += Kk->key[i]; if (Kk->key[i] != 0 && Kk->key[i] != 1) out.viol("noise:key-not-binary", J().i("n", n).i("value", Kk->key[i])); }
        MaskStat ms;
        for (double alpha: alphas) {
            Mom m; int kk = n >= 500 ? K / 4 : K;
            VH_OP("lweSymEncrypt:n=%d:alpha=%g", n, alpha);
            for (int i = 0; i < kk; i++) {
                Torus32 mu = rng.i32();
                lweSymEncrypt(c, mu, alpha, Kk);
                m.add((double) (int32_t) (ref_lwe_phase(c, Kk->key, n) - (U) mu));
                if (i < 20000) { for (int j = 0; j < n && j < 64; j++) ms.add(c->a[j]); ms.break_chain(); }
                out.evaluations++;
            }
            char cell[96]; snprintf(cell, sizeof cell, "fresh-lwe:n=%d:alpha=2^%.2f", n, log2(alpha));
            emit_mom(cell, m, alpha, "trunc-gaussian", 0, J().i("n", n));
        }
        char cell[64]; snprintf(cell, sizeof cell, "mask:lwe:n=%d", n); emit_mask(cell, ms);
        // encryption with a caller-supplied noise value: the phase must be message + dtot32(noise) exactly
        for (int i = 0; i < 2000; i++) {
            Torus32 mu = rng.i32(); double noise = (rng.unit() - 0.5) * ldexp(1., -(int) rng.below(30)), alpha = ldexp(1., -(int) (1 + rng.below(30)));
            VH_OP("lweSymEncryptWithExternalNoise:n=%d", n);
            lweSymEncryptWithExternalNoise(c, mu, noise, alpha, Kk);
            out.evaluations++;
            if (ref_lwe_phase(c, Kk->key, n) != (U) mu + (U) dtot32(noise) || c->current_variance != alpha * alpha)
                out.viol("noise:external-noise-not-exact", J().i("n", n).d("noise", noise).d("alpha", alpha).u("phase", ref_lwe_phase(c, Kk->key, n)).u("expected", (U) mu + (U) dtot32(noise)));
        }
        { char c2[64]; snprintf(c2, sizeof c2, "external-noise:n=%d", n); out.cell(c2, 2000); }
        delete_LweSample(c); delete_LweKey(Kk); delete_LweParams(P);
    }
}

// ---------------------------------------------------------------- fresh TLWE / TGSW rows
static void fresh_tlwe(int k, int samples) {
    const int N = 1024;
    double alphas[] = {ldexp(1., -30), ldexp(1., -25), ldexp(1., -20), ldexp(1., -15), ldexp(1., -8), 7.18e-9};
    TLweParams *P = new_TLweParams(N, k, 1e-9, 0.25); TLweKey *Kk = new_TLweKey(P); tLweKeyGen(Kk);
    TLweSample *c = new_TLweSample(P); TorusPolynomial *msg = new_TorusPolynomial(N);
    std::vector<U> ph; MaskStat ms;
    for (int i = 0; i < k; i++) for (int j = 0; j < N; j++) if (Kk->key[i].coefs[j] != 0 && Kk->key[i].coefs[j] != 1) out.viol("noise:key-not-binary", J().s("key", "tlwe").i("value", Kk->key[i].coefs[j]));
    for (double alpha: alphas) {
        Mom m;
        VH_OP("tLweSymEncrypt:k=%d:alpha=%g", k, alpha);
        for (int s = 0; s < samples; s++) {
            int variant = s % 3;
            for (int j = 0; j < N; j++) msg->coefsT[j] = variant == 0 ? rng.i32() : 0;
            Torus32 mu = rng.i32();
            if (variant == 0) tLweSymEncrypt(c, msg, alpha, Kk); else if (variant == 1) { tLweSymEncryptT(c, mu, alpha, Kk); msg->coefsT[0] = mu; } else tLweSymEncryptZero(c, alpha, Kk);
            ref_tlwe_phase(ph, c, Kk->key, N, k);
            for (int j = 0; j < N; j++) m.add((double) (int32_t) (ph[j] - (U) msg->coefsT[j]));
            for (int i = 0; i < k; i++) { for (int j = 0; j < N; j++) ms.add(c->a[i].coefsT[j]); ms.break_chain(); }
            out.evaluations++;
        }
        char cell[96]; snprintf(cell, sizeof cell, "fresh-tlwe:k=%d:alpha=2^%.2f", k, log2(alpha));
        emit_mom(cell, m, alpha, "trunc-gaussian", k, J().i("k", k));
    }
    char cell[64]; snprintf(cell, sizeof cell, "mask:tlwe:k=%d", k); emit_mask(cell, ms);
    { // TGSW encryption of zero: every row is a fresh TLWE encryption of 0; and the uniform polynomial sampler
        TGswParams *G = new_TGswParams(2, 8, P); TGswKey *GK = new_TGswKey(G); tGswKeyGen(GK); TGswSample *z = new_TGswSample(G);
        double alpha = ldexp(1., -22); Mom m; MaskStat mu2;
        for (int rep = 0; rep < (samples + 5) / 6; rep++) {
            VH_OP("tGswEncryptZero:k=%d", k); tGswEncryptZero(z, alpha, GK);
            for (int r = 0; r < G->kpl; r++) { ref_tlwe_phase(ph, &z->all_sample[r], GK->tlwe_key.key, N, k); for (int j = 0; j < N; j++) m.add((double) (int32_t) ph[j]); out.evaluations++; }
            VH_OP("torusPolynomialUniform"); torusPolynomialUniform(msg); for (int j = 0; j < N; j++) mu2.add(msg->coefsT[j]); mu2.break_chain();
        }
        char c3[96]; snprintf(c3, sizeof c3, "tgsw-encrypt-zero:k=%d:alpha=2^-22", k); emit_mom(c3, m, alpha, "trunc-gaussian", k, J().i("k", k));
        snprintf(c3, sizeof c3, "mask:torusPolynomialUniform:k=%d", k); emit_mask(c3, mu2);
        delete_TGswSample(z); delete_TGswKey(GK); delete_TGswParams(G);
    }
    delete_TorusPolynomial(msg); delete_TLweSample(c); delete_TLweKey(Kk); delete_TLweParams(P);
}

// ---------------------------------------------------------------- every row of a generated key set
static void key_rows(const TFheGateBootstrappingParameterSet *gb, const std::string &cfg, int coefs_per_row, int nthreads) {
    VH_OP("keygen:%s", cfg.c_str());
    TFheGateBootstrappingSecretKeySet *sk = new_random_gate_bootstrapping_secret_keyset(gb);
    const int n = gb->in_out_params->n, N = gb->tgsw_params->tlwe_params->N, k = gb->tgsw_params->tlwe_params->k, l = gb->tgsw_params->l;
    const int t = gb->ks_t, bb = gb->ks_basebit, base = 1 << bb, kpl = (k + 1) * l;
    const double a_ks = gb->in_out_params->alpha_min, a_bk = gb->tgsw_params->tlwe_params->alpha_min;
    const int32_t *s = sk->lwe_key->key; const IntPolynomial *rk = sk->tgsw_key->tlwe_key.key;
    // keys binary, balanced
    int ones_lwe = 0, ones_ring = 0;
    for (int i = 0; i < n; i++) { if (s[i] != 0 && s[i] != 1) out.viol("noise:key-not-binary", J().s("config", cfg).s("key", "lwe").i("value", s[i])); ones_lwe += s[i] != 0; }
    for (int i = 0; i < k; i++) for (int j = 0; j < N; j++) { int v = rk[i].coefs[j]; if (v != 0 && v != 1) out.viol("noise:key-not-binary", J().s("config", cfg).s("key", "ring").i("value", v)); ones_ring += v != 0; }
    out.stat(J().s("kind", "keybalance").s("config", cfg).i("lwe_ones", ones_lwe).i("lwe_n", n).i("ring_ones", ones_ring).i("ring_n", k * N));
    // --- key-switching rows: (i,j,h>=1) encrypt h s'_i / base^(j+1) under the LWE key; h = 0 rows are trivial zero samples
    const LweKeySwitchKey *ks = sk->cloud.bk->ks;
    std::vector<int32_t> ext(k * N); for (int i = 0; i < k; i++) memcpy(&ext[i * N], rk[i].coefs, 4 * N);
    Mom mks; MaskStat mask_ks; double sum_err = 0; uint64_t bad_h0 = 0, rows = 0;
    VH_OP("ks-rows:%s", cfg.c_str());
    for (int i = 0; i < k * N; i++) for (int j = 0; j < t; j++) for (int h = 0; h < base; h++) {
        const LweSample *r = &ks->ks[i][j][h];
        if (h == 0) { bool z = r->b == 0; for (int p = 0; p < n && z; p++) z = r->a[p] == 0; if (ref_lwe_phase(r, s, n) != 0) bad_h0++; (void) z; continue; }
        U msg = (U) ext[i] * (U) h * ((U) 1 << (32 - (j + 1) * bb));
        double e = (double) (int32_t) (ref_lwe_phase(r, s, n) - msg);
        mks.add(e); sum_err += e; rows++;
        if ((i & 7) == 0) { for (int p = 0; p < n; p++) mask_ks.add(r->a[p]); mask_ks.break_chain(); }
        out.evaluations++;
    }
    if (bad_h0) out.viol("noise:ks-h0-row-not-an-encryption-of-zero", J().s("config", cfg).u("rows", bad_h0));
    emit_mom(cfg + ":ks-rows", mks, a_ks, "trunc-gaussian-recentred", 0, J().s("config", cfg).u("rows", rows).d("sum_err_units", sum_err));
    emit_mask(cfg + ":mask:ks-rows", mask_ks);
    // the FFT copy of the key-switching key is the same key
    { const LweKeySwitchKey *k2 = sk->cloud.bkFFT->ks; bool same = true; for (int r = 0; r < k * N * t * base && same; r++) same = memcmp(ks->ks0_raw[r].a, k2->ks0_raw[r].a, 4 * n) == 0 && ks->ks0_raw[r].b == k2->ks0_raw[r].b;
      out.evaluations++; if (!same) out.viol("noise:bkFFT-ks-differs", J().s("config", cfg)); }
    // --- bootstrapping rows: row (bloc,p) of bk[i] encrypts s_i * h_p on component bloc
    const TGswSample *bk = sk->cloud.bk->bk; const Torus32 *hh = gb->tgsw_params->h;
    std::vector<Mom> tm(nthreads); std::vector<MaskStat> tmask(nthreads); std::vector<double> rmin(nthreads, 1e300), rmax(nthreads, 0); std::vector<uint64_t> evals(nthreads, 0);
    std::vector<int> rmin_row(nthreads, -1), rmax_row(nthreads, -1);
    VH_OP("bk-rows:%s", cfg.c_str());
    auto work = [&](int tid) {
        Rng lr(12345 + tid);
        for (int i = tid; i < n; i += nthreads) for (int r = 0; r < kpl; r++) {
            const TLweSample *row = &bk[i].all_sample[r]; int bloc = r / l, p = r % l;
            U mu = (U) s[i] * (U) hh[p];
            Mom rowm;
            for (int cidx = 0; cidx < coefs_per_row; cidx++) {
                int j = coefs_per_row >= N ? cidx : (int) lr.below(N);
                // coefficient j of b - sum_q a_q * s_q  (negacyclic), exact
                U ph = (U) row->b->coefsT[j];
                for (int q = 0; q < k; q++) { const int32_t *a = row->a[q].coefsT, *key = rk[q].coefs; U acc = 0;
                    for (int m2 = 0; m2 <= j; m2++) if (key[m2]) acc += (U) a[j - m2];
                    for (int m2 = j + 1; m2 < N; m2++) if (key[m2]) acc -= (U) a[N + j - m2];
                    ph -= acc; }
                U expect = bloc == k ? (j == 0 ? mu : 0) : (U) 0 - mu * (U) rk[bloc].coefs[j];
                double e = (double) (int32_t) (ph - expect);
                tm[tid].add(e); rowm.add(e);
            }
            double rv = rowm.s2 / rowm.n;
            if (rv < rmin[tid]) { rmin[tid] = rv; rmin_row[tid] = i * kpl + r; } if (rv > rmax[tid]) { rmax[tid] = rv; rmax_row[tid] = i * kpl + r; }
            if ((i & 3) == 0) for (int q = 0; q < k; q++) { for (int j = 0; j < N; j++) tmask[tid].add(row->a[q].coefsT[j]); tmask[tid].break_chain(); }
            evals[tid]++;
        }
    };
    std::vector<std::thread> th; for (int tdx = 0; tdx < nthreads; tdx++) th.emplace_back(work, tdx); for (auto &x: th) x.join();
    Mom mb; MaskStat maskb; double mn = 1e300, mxv = 0; int mn_row = -1, mx_row = -1;
    for (int tdx = 0; tdx < nthreads; tdx++) { mb.merge(tm[tdx]); out.evaluations += evals[tdx]; if (rmin[tdx] < mn) { mn = rmin[tdx]; mn_row = rmin_row[tdx]; } if (rmax[tdx] > mxv) { mxv = rmax[tdx]; mx_row = rmax_row[tdx]; }
        for (int b = 0; b < 4; b++) for (int v = 0; v < 256; v++) maskb.hist[b][v] += tmask[tdx].hist[b][v]; maskb.n += tmask[tdx].n; maskb.sx += tmask[tdx].sx; maskb.sxx += tmask[tdx].sxx; maskb.sxy += tmask[tdx].sxy; }
    emit_mom(cfg + ":bk-rows", mb, a_bk, "trunc-gaussian", k, J().s("config", cfg).u("rows", (uint64_t) n * kpl).i("coefs_per_row", coefs_per_row)
            .d("min_row_second_moment", mn).i("min_row", mn_row).d("max_row_second_moment", mxv).i("max_row", mx_row));
    emit_mask(cfg + ":mask:bk-rows", maskb);
    // --- gate-API ciphertexts use the in/out noise level
    { LweSample *c = new_gate_bootstrapping_ciphertext(gb); Mom m; VH_OP("bootsSymEncrypt:%s", cfg.c_str());
      for (int i = 0; i < 20000; i++) { int b = i & 1; bootsSymEncrypt(c, b, sk); m.add(phase_error(c, b, sk) * 4294967296.0); out.evaluations++; }
      emit_mom(cfg + ":gate-ciphertexts", m, a_ks, "trunc-gaussian", 0, J().s("config", cfg)); delete_gate_bootstrapping_ciphertext(c); }
    out.sample(J().s("config", cfg).u("ks_rows_measured", rows).u("bk_rows_measured", (uint64_t) n * kpl).i("coefficients_per_bk_row", coefs_per_row).d("ks_sigma_units", sqrt(mks.s2 / mks.n)).d("bk_sigma_units", sqrt(mb.s2 / mb.n)));
    delete_gate_bootstrapping_secret_keyset(sk);
}

// ---------------------------------------------------------------- key-switching keys on their own: many rows, small digit layouts
// lweCreateKeySwitchKey with a large source dimension and a tiny target dimension: hundreds of thousands of rows per layout,
// including layouts with very few non-zero digits per source coefficient (t*(base-1) = 1, 2, 3), where any per-coefficient
// treatment of the noise (recentring, reuse) becomes a gross effect. Also records the variance of the sum of the rows that
// belong to one source coefficient: for fresh independent noise it is (rows per coefficient) * sigma^2.
static void ks_rows_mode(int n_in, int n_out, double alpha) {
    struct L { int t, bb; } layouts[] = {{1, 1}, {2, 1}, {3, 1}, {1, 2}, {2, 2}, {8, 2}, {4, 3}, {2, 5}};
    for (auto &ly: layouts) {
        int t = ly.t, bb = ly.bb, base = 1 << bb, B = t * (base - 1);
        int ni = n_in / (B > 8 ? 1 : 1);
        LweParams *Pin = new_LweParams(ni, alpha, 0.25), *Pout = new_LweParams(n_out, alpha, 0.25);
        LweKey *kin = new_LweKey(Pin), *kout = new_LweKey(Pout); lweKeyGen(kin); lweKeyGen(kout);
        LweKeySwitchKey *ks = new_LweKeySwitchKey(ni, t, bb, Pout);
        for (int variant = 0; variant < 2; variant++) {
        if (variant == 1 && (B < 3 || ni > 16384)) continue;   // the older generator (recentres after encryption): a few layouts
        VH_OP("%s:n_in=%d:t=%d:basebit=%d", variant ? "lweCreateKeySwitchKey_old" : "lweCreateKeySwitchKey", ni, t, bb);
        if (variant == 0) lweCreateKeySwitchKey(ks, kin, kout); else lweCreateKeySwitchKey_old(ks, kin, kout);
        Mom m, group; uint64_t bad_h0 = 0;
        for (int i = 0; i < ni; i++) {
            double gs = 0;
            for (int j = 0; j < t; j++) for (int h = 0; h < base; h++) {
                const LweSample *r = &ks->ks[i][j][h];
                if (h == 0) { if (variant == 0 && ref_lwe_phase(r, kout->key, n_out) != 0) bad_h0++; continue; }
                U msg = (U) kin->key[i] * (U) h * ((U) 1 << (32 - (j + 1) * bb));
                double e = (double) (int32_t) (ref_lwe_phase(r, kout->key, n_out) - msg);
                m.add(e); gs += e; out.evaluations++;
            }
            group.add(gs);
        }
        if (bad_h0) out.viol("noise:ks-h0-row-not-an-encryption-of-zero", J().i("t", t).i("basebit", bb).u("rows", bad_h0));
        char cell[96]; snprintf(cell, sizeof cell, "ks-key%s:t%d.bb%d:n_in=%d", variant ? "-old" : "", t, bb, ni);
        emit_mom(cell, m, alpha, "trunc-gaussian-recentred", 0, J().i("t", t).i("basebit", bb).i("rows_per_source_coefficient", B)
                .d("group_sum_second_moment", group.s2 / group.n).u("groups", group.n));
        m = Mom(); group = Mom();
        }
        delete_LweKeySwitchKey(ks); delete_LweKey(kin); delete_LweKey(kout); delete_LweParams(Pin); delete_LweParams(Pout);
    }
    out.sample(J().s("mode", "ks-rows").i("n_in", n_in).i("n_out", n_out).d("alpha", alpha).s("layouts(t,basebit)", "(1,1),(2,1),(3,1),(1,2),(2,2),(8,2),(4,3),(2,5)"));
}

// ---------------------------------------------------------------- seeding
static std::string keyset_bytes(const TFheGateBootstrappingParameterSet *gb, uint64_t seed, std::string *ct) {
    seed_library(seed);
    TFheGateBootstrappingSecretKeySet *sk = new_random_gate_bootstrapping_secret_keyset(gb);
    std::string s = to_stream_bytes([&](std::ostream &o) { export_tfheGateBootstrappingSecretKeySet_toStream(o, sk); });
    LweSample *c = new_gate_bootstrapping_ciphertext_array(2, gb);
    bootsSymEncrypt(c, 1, sk); bootsSymEncrypt(c + 1, 1, sk);
    const int n = gb->in_out_params->n;
    ct->assign((const char *) c[0].a, 4 * n); ct->append((const char *) &c[0].b, 4); ct->append((const char *) c[1].a, 4 * n); ct->append((const char *) &c[1].b, 4);
    // two encryptions of one message differ in mask and body
    out.evaluations++;
    if (memcmp(c[0].a, c[1].a, 4 * n) == 0 || c[0].b == c[1].b) out.viol("seeding:two-encryptions-identical", J().u("seed", seed));
    delete_gate_bootstrapping_ciphertext_array(2, c); delete_gate_bootstrapping_secret_keyset(sk);
    return s;
}
static void seeding() {
    PSet ps(24, 1024, 1, 2, 8, 4, 2, ldexp(1., -15), ldexp(1., -25));
    uint64_t s1 = 424242 + rng.below(100000), s2 = s1 + 1;
    std::string c1, c1b, c2;
    std::string a = keyset_bytes(ps.gb, s1, &c1), b = keyset_bytes(ps.gb, s1, &c1b), c = keyset_bytes(ps.gb, s2, &c2);
    out.evaluations += 3;
    if (a != b || c1 != c1b) out.viol("seeding:same-seed-not-reproducible", J().u("seed", s1).b("keys_equal", a == b).b("ciphertexts_equal", c1 == c1b));
    if (a == c || c1 == c2) out.viol("seeding:different-seeds-same-output", J().u("seed1", s1).u("seed2", s2));
    // a different generator state between two key generations gives different keys even without re-seeding
    { std::string x1, x2; seed_library(s1); TFheGateBootstrappingSecretKeySet *k1 = new_random_gate_bootstrapping_secret_keyset(ps.gb), *k2 = new_random_gate_bootstrapping_secret_keyset(ps.gb);
      out.evaluations++; if (memcmp(k1->lwe_key->key, k2->lwe_key->key, 4 * 24) == 0 && memcmp(k1->tgsw_key->key[0].coefs, k2->tgsw_key->key[0].coefs, 4096) == 0) out.viol("seeding:consecutive-keys-identical", J());
      delete_gate_bootstrapping_secret_keyset(k1); delete_gate_bootstrapping_secret_keyset(k2); }
    // no other randomness source: the whole key set is a function of the seed words (multi-word seeds as well)
    { uint32_t w1[3] = {1, 2, 3}, w2[3] = {1, 2, 4}; std::string e1, e2, e3;
      auto gen = [&](uint32_t *w, int nw) { tfhe_random_generator_setSeed(w, nw); TFheGateBootstrappingSecretKeySet *k = new_random_gate_bootstrapping_secret_keyset(ps.gb);
          std::string s = to_stream_bytes([&](std::ostream &o) { export_tfheGateBootstrappingSecretKeySet_toStream(o, k); }); delete_gate_bootstrapping_secret_keyset(k); return s; };
      e1 = gen(w1, 3); e2 = gen(w1, 3); e3 = gen(w2, 3); out.evaluations += 2;
      if (e1 != e2) out.viol("seeding:same-seed-not-reproducible", J().s("seed", "{1,2,3}"));
      if (e1 == e3) out.viol("seeding:different-seeds-same-output", J().s("seed", "{1,2,3} vs {1,2,4}")); }
    // generator accounting: what an encryption emits must be paid for in generator steps. The engine yields less than 31 bits per
    // step, so a mask of W uniform 32-bit words costs at least 32 W / 31 steps: the number of steps consumed by an encryption must
    // grow by at least that much when the mask grows by W words (k -> k+1 polynomials, n -> n' coefficients), whatever the order or
    // method of drawing. (A helper that draws the mask from a copy of the generator leaves the steps unpaid and the same engine
    // words are used again for the noise.)
    { auto steps = [&](const std::function<void()> &f) -> long { std::default_random_engine pre = generator; f(); std::default_random_engine probe = pre; for (long i = 0; i <= 400000; i++) { if (probe == generator) return i; probe(); } return -1; };
      long At[4] = {0, 0, 0, 0};
      for (int kk = 1; kk <= 3; kk++) { TLweParams *TP = new_TLweParams(1024, kk, ldexp(1., -25), 0.25); TLweKey *TK = new_TLweKey(TP); tLweKeyGen(TK); TLweSample *tc = new_TLweSample(TP);
          seed_library(s1 + 50 + kk); At[kk] = steps([&] { tLweSymEncryptZero(tc, ldexp(1., -25), TK); });
          delete_TLweSample(tc); delete_TLweKey(TK); delete_TLweParams(TP); }
      long Al[2]; int nn[2] = {100, 600};
      for (int q = 0; q < 2; q++) { LweParams *P = new_LweParams(nn[q], ldexp(1., -15), 0.25); LweKey *K = new_LweKey(P); lweKeyGen(K); LweSample *c = new_LweSample(P);
          seed_library(s1 + 60 + q); Al[q] = steps([&] { lweSymEncrypt(c, 1 << 29, ldexp(1., -15), K); }); delete_LweSample(c); delete_LweKey(K); delete_LweParams(P); }
      const double per_word = 32.0 / 31.0;
      out.evaluations += 5;
      out.stat(J().s("kind", "generator-accounting").i("steps_tlwe_k1", At[1]).i("steps_tlwe_k2", At[2]).i("steps_tlwe_k3", At[3]).i("steps_lwe_n100", Al[0]).i("steps_lwe_n600", Al[1]));
      if (At[1] < 0 || At[2] < 0 || At[3] < 0 || Al[0] < 0 || Al[1] < 0) out.viol("seeding:generator-state-not-reachable-from-its-previous-state", J().i("k1", At[1]).i("k2", At[2]).i("k3", At[3]));
      else {
          if (At[2] - At[1] < 1024 * per_word || At[3] - At[2] < 1024 * per_word || At[1] < 1024 * per_word)
              out.viol("seeding:mask-not-paid-for-in-generator-steps:tLweSymEncryptZero", J().i("steps_k1", At[1]).i("steps_k2", At[2]).i("steps_k3", At[3]).d("minimum_per_extra_mask_polynomial", 1024 * per_word));
          if (Al[1] - Al[0] < 500 * per_word || Al[0] < 100 * per_word)
              out.viol("seeding:mask-not-paid-for-in-generator-steps:lweSymEncrypt", J().i("steps_n100", Al[0]).i("steps_n600", Al[1]).d("minimum_for_500_extra_words", 500 * per_word));
      }
      out.cell("seeding:generator-accounting"); }
    // every word of a multi-word seed matters: seeds of length 1..40 that differ in exactly one word (each position in turn, lowest
    // and highest bit) give different keys and masks; seeds that differ only in length do too
    { LweParams *P = new_LweParams(64, ldexp(1., -15), 0.25); LweKey *K = new_LweKey(P); LweSample *c = new_LweSample(P);
      auto draw = [&](std::vector<uint32_t> &w) { tfhe_random_generator_setSeed(w.data(), (int32_t) w.size()); lweKeyGen(K); lweSymEncrypt(c, 1 << 29, ldexp(1., -15), K);
          std::string o((const char *) K->key, 256); o.append((const char *) c->a, 256); return o; };
      uint64_t pairs = 0;
      for (int len: {1, 2, 3, 7, 8, 9, 12, 16, 17, 33, 40}) {
          std::vector<uint32_t> base(len); for (auto &x: base) x = rng.u32();
          std::string ref = draw(base);
          for (int pos = 0; pos < len; pos++) for (uint32_t flip: {1u, 0x80000000u}) {
              std::vector<uint32_t> v = base; v[pos] ^= flip; std::string o = draw(v); pairs++; out.evaluations++;
              if (o == ref || memcmp(o.data(), ref.data(), 256) == 0) { out.viol("seeding:different-seeds-same-output", J().i("seed_words", len).i("differing_word", pos).u("flipped_bit", flip).s("note", "multi-word seeds differing in one word")); pos = len; break; }
          }
          std::vector<uint32_t> longer = base; longer.push_back(0); out.evaluations++;
          if (draw(longer) == ref) out.viol("seeding:different-seeds-same-output", J().i("seed_words", len).s("note", "seed extended by a zero word"));
          if (draw(base) != ref) out.viol("seeding:same-seed-not-reproducible", J().i("seed_words", len));
      }
      delete_LweSample(c); delete_LweKey(K); delete_LweParams(P);
      out.cell("seeding:multi-word-seeds:every-word-matters", pairs); }
    // re-seeding must reset *all* sampler state: sessions of 1, 2, 3, ... encryptions (odd and even numbers of Gaussian
    // draws) replayed after a re-seed give identical ciphertexts, whatever was drawn before the re-seed
    { LweParams *P = new_LweParams(20, ldexp(1., -15), 0.25); LweKey *K = new_LweKey(P); LweSample *c = new_LweSample(P);
      auto session = [&](uint64_t sd, int nb) { seed_library(sd); lweKeyGen(K); std::string o; for (int i = 0; i < nb; i++) { lweSymEncrypt(c, 1 << 29, ldexp(1., -15), K); o.append((const char *) c->a, 80); o.append((const char *) &c->b, 4); } return o; };
      for (int nb = 1; nb <= 6; nb++) {
          std::string a1 = session(777 + nb, nb), a2 = session(777 + nb, nb);
          out.evaluations++;
          if (a1 != a2) out.viol("seeding:same-seed-not-reproducible", J().i("encryptions_per_session", nb).s("note", "state left over from before the re-seed influences the replay"));
      }
      // and with TLWE noise drawn in between (different call mix before the re-seed)
      { TLweParams *TP = new_TLweParams(1024, 1, ldexp(1., -25), 0.25); TLweKey *TK = new_TLweKey(TP); TLweSample *tc = new_TLweSample(TP);
        std::string b1 = session(999, 3); seed_library(5); tLweKeyGen(TK); tLweSymEncryptZero(tc, ldexp(1., -25), TK); lweSymEncrypt(c, 0, ldexp(1., -15), K);
        std::string b2 = session(999, 3); out.evaluations++;
        if (b1 != b2) out.viol("seeding:same-seed-not-reproducible", J().s("note", "history before the re-seed influences the replay"));
        delete_TLweSample(tc); delete_TLweKey(TK); delete_TLweParams(TP); }
      delete_LweSample(c); delete_LweKey(K); delete_LweParams(P); }
    // which thread draws must not matter: one generator state for the process. Draws made one after the other on the main
    // thread, on fresh threads and on a long-lived worker are all different; the whole history replays after a re-seed;
    // a re-seed made on one thread governs what the other threads draw afterwards (a key generated on a worker after the
    // application seeded with entropy on its main thread depends on that entropy).
    { LweParams *P = new_LweParams(64, ldexp(1., -15), 0.25);
      auto draw = [&](std::string *o) { LweKey *K = new_LweKey(P); lweKeyGen(K); LweSample *c = new_LweSample(P); lweSymEncrypt(c, 1 << 29, ldexp(1., -15), K);
          o->assign((const char *) K->key, 256); o->append((const char *) c->a, 256); o->append((const char *) &c->b, 4); delete_LweSample(c); delete_LweKey(K); };
      auto fresh_thread = [&](std::string *o) { std::thread t(draw, o); t.join(); };
      struct Worker { std::thread th; std::mutex m; std::condition_variable cv; std::function<void()> job; bool has = false, stop = false, done = false;
          Worker() { th = std::thread([this] { std::unique_lock<std::mutex> l(m); for (;;) { cv.wait(l, [this] { return has || stop; }); if (stop) return; job(); has = false; done = true; cv.notify_all(); } }); }
          void run(std::function<void()> f) { std::unique_lock<std::mutex> l(m); job = f; has = true; done = false; cv.notify_all(); cv.wait(l, [this] { return done; }); }
          ~Worker() { { std::lock_guard<std::mutex> l(m); stop = true; } cv.notify_all(); th.join(); } };
      Worker W; std::string w0; W.run([&] { draw(&w0); });          // the worker exists, and has drawn, before any of the re-seeds below
      auto history = [&](uint64_t sd, std::vector<std::string> &h) { h.assign(6, ""); seed_library(sd); draw(&h[0]); fresh_thread(&h[1]); W.run([&] { draw(&h[2]); }); fresh_thread(&h[3]); draw(&h[4]); W.run([&] { draw(&h[5]); }); };
      static const char *who[] = {"main", "fresh-thread-1", "worker", "fresh-thread-2", "main-again", "worker-again"};
      std::vector<std::string> h1, h1b, h2;
      history(s1, h1); history(s1, h1b); history(s2, h2);
      for (int i = 0; i < 6; i++) for (int j = i + 1; j < 6; j++) { out.evaluations++;
          bool keq = memcmp(h1[i].data(), h1[j].data(), 256) == 0, meq = memcmp(h1[i].data() + 256, h1[j].data() + 256, 256) == 0;
          if (keq || meq) out.viol("seeding:draws-on-different-threads-identical", J().s("first", who[i]).s("second", who[j]).b("keys_equal", keq).b("masks_equal", meq).u("seed", s1)); }
      for (int i = 0; i < 6; i++) { out.evaluations += 2;
          if (h1[i] != h1b[i]) out.viol("seeding:same-seed-not-reproducible", J().s("drawn_on", who[i]).s("note", "the re-seed was made on the main thread").u("seed", s1));
          if (h1[i] == h2[i] || memcmp(h1[i].data(), h2[i].data(), 256) == 0) out.viol("seeding:different-seeds-same-output", J().s("drawn_on", who[i]).s("note", "the re-seeds were made on the main thread").u("seed1", s1).u("seed2", s2)); }
      { out.evaluations++; if (memcmp(w0.data(), h1[2].data(), 256) == 0) out.viol("seeding:draws-on-different-threads-identical", J().s("first", "worker-before-reseed").s("second", "worker")); }
      // a re-seed made on a worker governs the main thread as well
      { std::string a1, a2; W.run([&] { seed_library(s1 + 17); }); draw(&a1); W.run([&] { seed_library(s1 + 17); }); draw(&a2); out.evaluations++;
        if (a1 != a2) out.viol("seeding:same-seed-not-reproducible", J().s("drawn_on", "main").s("note", "the re-seed was made on a worker thread")); }
      delete_LweParams(P);
      out.cell("seeding:threads:pairwise-different", 15); out.cell("seeding:threads:replay", 6); out.cell("seeding:threads:different-seeds", 6); out.cell("seeding:threads:reseed-on-worker"); }
    out.cell("seeding:replay-after-odd-and-even-draw-counts");
    out.cell("seeding:reproducible"); out.cell("seeding:different-seeds"); out.cell("seeding:two-encryptions"); out.cell("seeding:multi-word-seed");
    out.sample(J().s("mode", "seeding").u("seed", s1).u("secret_export_bytes", a.size()));
}

int main(int argc, char **argv) {
    Args args(argc, argv);
    out.open(args.s("out", "-"));
    install_crash_handler();
    uint64_t seed = args.i("seed", 1);
    std::string mode = args.s("mode", "lwe");
    rng.reseed(seed * 1000003ull + fnv1a(mode.data(), mode.size()) % 991 + args.i("shard", 0) * 13);
    seed_library(seed * 7 + fnv1a(mode.data(), mode.size()) % 991 + args.i("shard", 0) * 1013);
    if (mode == "lwe") fresh_lwe(args.i("K", 20000));
    else if (mode == "tlwe") fresh_tlwe(args.i("k", 1), args.i("samples", 30));
    else if (mode == "keys") {
        int lam = args.i("lambda", 128);
        if (lam) { TFheGateBootstrappingParameterSet *p = default_params(lam); char cfg[64]; snprintf(cfg, sizeof cfg, "default%d:seed%llu", lam <= 80 ? 80 : 128, (unsigned long long) (seed + args.i("shard", 0)));
            key_rows(p, cfg, args.i("coefs", 128), args.i("threads", 8)); delete_gate_bootstrapping_parameters(p); }
        else { PSet ps(40, 1024, 2, 2, 9, 5, 3, ldexp(1., -18), ldexp(1., -28)); key_rows(ps.gb, "custom-n40-k2:seed" + std::to_string(seed), 1024, args.i("threads", 8)); }
    } else if (mode == "ksrows") ks_rows_mode(args.i("n_in", 16384), args.i("n_out", 8), args.d("alpha", ldexp(1., -15)));
    else if (mode == "seeding") seeding();
    else if (mode == "keybits") {
        // secret key bits, position by position, over many generated keys: each position is 1 in half of the keys, positions are
        // uncorrelated (lags 1..64), every residue class of the index modulo 2..64 is balanced, as is every key as a whole
        int K = args.i("keys", 2000);
        struct Acc { std::vector<uint32_t> ones; std::vector<uint64_t> lag; uint64_t total = 0, n = 0; int len; Acc(int len) : ones(len, 0), lag(65, 0), len(len) {} 
            void add(const int32_t *key) { for (int i = 0; i < len; i++) { if (key[i] != 0 && key[i] != 1) out.viol("noise:key-not-binary", J().i("value", key[i])); ones[i] += key[i]; total += key[i]; }
                for (int L = 1; L <= 64 && L < len; L++) for (int i = 0; i + L < len; i++) lag[L] += (key[i] == key[i + L]); n++; } };
        auto report = [&](const char *what, Acc &a) {
            // per-position z-scores, worst residue class, worst lag: judged offline (8 sigma + union over the number of statistics)
            double worst_pos = 0; int worst_pos_i = -1; for (int i = 0; i < a.len; i++) { double z = (a.ones[i] - a.n / 2.0) / sqrt(a.n / 4.0); if (fabs(z) > fabs(worst_pos)) { worst_pos = z; worst_pos_i = i; } }
            double worst_cls = 0; int wm = 0, wr = 0; for (int m = 2; m <= 64; m++) for (int r = 0; r < m; r++) { uint64_t o = 0, c = 0; for (int i = r; i < a.len; i += m) { o += a.ones[i]; c += a.n; } if (c < 64) continue; double z = (o - c / 2.0) / sqrt(c / 4.0); if (fabs(z) > fabs(worst_cls)) { worst_cls = z; wm = m; wr = r; } }
            double worst_lag = 0; int wl = 0; for (int L = 1; L <= 64 && L < a.len; L++) { double c = (double) a.n * (a.len - L); double z = (a.lag[L] - c / 2.0) / sqrt(c / 4.0); if (fabs(z) > fabs(worst_lag)) { worst_lag = z; wl = L; } }
            double tot = (double) a.n * a.len, ztot = (a.total - tot / 2.0) / sqrt(tot / 4.0);
            out.stat(J().s("kind", "keybits").s("key", what).u("keys", a.n).i("length", a.len).d("z_total_balance", ztot).d("z_worst_position", worst_pos).i("worst_position", worst_pos_i)
                             .d("z_worst_residue_class", worst_cls).i("class_modulus", wm).i("class_residue", wr).d("z_worst_lag", worst_lag).i("worst_lag", wl));
            out.evaluations += a.n; out.cell(std::string("keybits:") + what, a.n);
        };
        { LweParams *P = new_LweParams(630, ldexp(1., -15), 0.25); LweKey *Kk = new_LweKey(P); Acc a(630); VH_OP("lweKeyGen x %d", K);
          for (int q = 0; q < K; q++) { if (q % 97 == 0) seed_library(seed * 131 + q + (uint64_t) args.i("shard", 0) * 100003); lweKeyGen(Kk); a.add(Kk->key); } report("lwe-n630", a); delete_LweKey(Kk); delete_LweParams(P); }
        { LweParams *P = new_LweParams(500, ldexp(1., -15), 0.25); LweKey *Kk = new_LweKey(P); Acc a(500); for (int q = 0; q < K; q++) { lweKeyGen(Kk); a.add(Kk->key); } report("lwe-n500", a); delete_LweKey(Kk); delete_LweParams(P); }
        for (int kk = 1; kk <= 2; kk++) { TLweParams *TP = new_TLweParams(1024, kk, ldexp(1., -25), 0.25); TGswParams *GP = new_TGswParams(2, 10, TP); TGswKey *GK = new_TGswKey(GP); Acc a(1024 * kk); std::vector<int32_t> flat(1024 * kk);
          VH_OP("tGswKeyGen x %d (k=%d)", K, kk);
          for (int q = 0; q < K / kk; q++) { tGswKeyGen(GK); for (int i = 0; i < kk; i++) memcpy(&flat[1024 * i], GK->tlwe_key.key[i].coefs, 4096); a.add(flat.data()); }
          report(kk == 1 ? "ring-N1024-k1" : "ring-N1024-k2", a); delete_TGswKey(GK); delete_TGswParams(GP); delete_TLweParams(TP); }
        out.sample(J().s("mode", "keybits").i("keys_per_kind", K));
    }
    else if (mode == "tail") {
        // the sampler itself, far into its tails: a bootstrapping key of the 128-bit set makes 3.9e6 draws, so an event of
        // probability 1e-9 per draw spoils one key in a few hundred. count draws at one sigma, all moments + the maximum
        double alpha = args.d("alpha", ldexp(1., -25)); uint64_t count = (uint64_t) args.d("count", 1e8);
        Mom m; uint64_t over5 = 0, over6 = 0; const double s5 = 5 * alpha * 4294967296.0, s6 = 6 * alpha * 4294967296.0;
        VH_OP("gaussian32-tail:alpha=%g", alpha);
        for (uint64_t i = 0; i < count; i++) { Torus32 mu = (Torus32) (i * 2654435761u); double e = (double) (int32_t) ((U) gaussian32(mu, alpha) - (U) mu); m.add(e); double a = fabs(e); over5 += a > s5; over6 += a > s6; }
        out.evaluations += count;
        char cell[96]; snprintf(cell, sizeof cell, "gaussian32-tail:alpha=2^%.2f", log2(alpha));
        emit_mom(cell, m, alpha, "trunc-gaussian", 0, J().u("beyond_5_sigma", over5).u("beyond_6_sigma", over6));
        out.sample(J().s("mode", "tail").d("alpha", alpha).u("draws", count).d("max_over_sigma", m.mx / (alpha * 4294967296.0)).u("beyond_5_sigma", over5).u("beyond_6_sigma", over6));
    }
    out.finish();
    return 0;
}
